"""Long-form determinism self-test (development tool; the short form runs inside every check).

Every (property, VERIF_SEED, mode, run index) is executed in two completely separate passes:
  pass A: N interpreters in parallel (high load), PYTHONHASHSEED=0
  pass B: few interpreters in parallel (low load), another PYTHONHASHSEED
and the digests (plan + event log + schedule segments + every observation + fired faults) must be
identical.  usage: /venv/bin/python -B selftest/determinism.py [--seeds 40] [--runs 20]
"""
from __future__ import annotations

import argparse
import json
import os
import subprocess
import sys
import time
from concurrent.futures import ThreadPoolExecutor

HERE = os.path.dirname(os.path.abspath(__file__))
ROOT = os.path.dirname(HERE)
MAIN = os.path.join(ROOT, 'sim', 'main.py')


def one(prop, seed, spec, hashseed):
    env = dict(os.environ)
    env.pop('VERIF_PINNED', None)
    env['VERIF_SEED'] = str(seed)
    env['VERIF_HASHSEED'] = str(hashseed)
    p = subprocess.run(['/venv/bin/python', '-B', MAIN, prop, '--digests', spec], env=env,
                       capture_output=True, text=True, timeout=3000)
    if p.returncode != 0:
        return (prop, seed), {'error': p.stderr[-1000:]}
    return (prop, seed), json.loads(p.stdout.strip().splitlines()[-1])


def sweep(props, seeds, spec, hashseed, conc):
    out = {}
    with ThreadPoolExecutor(max_workers=conc) as ex:
        futs = [ex.submit(one, p, s, spec, hashseed) for p in props for s in seeds]
        for f in futs:
            k, v = f.result()
            out[k] = v
    return out


def main():
    ap = argparse.ArgumentParser()
    ap.add_argument('--seeds', type=int, default=40)
    ap.add_argument('--first-seed', type=int, default=1000)
    ap.add_argument('--runs', type=int, default=20)
    ap.add_argument('--props', default='C09,C14')
    args = ap.parse_args()
    props = args.props.split(',')
    seeds = list(range(args.first_seed, args.first_seed + args.seeds))
    spec = 'seq:0:%d,thr:0:%d' % (args.runs, args.runs)
    t0 = time.time()
    a = sweep(props, seeds, spec, 0, 16)
    ta = time.time() - t0
    b = sweep(props, seeds, spec, 31337, 5)
    tb = time.time() - t0 - ta
    bad, n = [], 0
    for k in a:
        if 'error' in a[k] or 'error' in b[k]:
            bad.append((k, 'error', a[k].get('error') or b[k].get('error')))
            continue
        for r in a[k]:
            n += 1
            if a[k][r].split(':')[0] != str(b[k].get(r)).split(':')[0]:
                bad.append((k, r))
    rep = {'props': props, 'seeds': len(seeds), 'runs_per_seed_and_mode': args.runs,
           'run_digests_compared': n, 'mismatches': len(bad), 'first_mismatches': bad[:10],
           'pass_A': {'parallel_interpreters': 16, 'hashseed': 0, 'wall_s': round(ta, 1)},
           'pass_B': {'parallel_interpreters': 5, 'hashseed': 31337, 'wall_s': round(tb, 1)}}
    with open(os.path.join(HERE, 'DETERMINISM.json'), 'w') as f:
        json.dump(rep, f, indent=1, default=repr)
    print(json.dumps(rep, indent=1, default=repr))
    return 1 if bad else 0


if __name__ == '__main__':
    sys.exit(main())
