"""Sensitivity self-test: every seeded mutant must be caught by the quick check, equivalent mutants
must stay clean.  Mutants are applied to a scratch copy of the package OUTSIDE /repo and /verif
(VERIF_SRC points the check at it); the copy is removed as soon as the mutant has been judged.

usage: /venv/bin/python -B selftest/sensitivity.py [--budget 40] [--only id,id] [--patch-dir seeded]
Writes selftest/SENSITIVITY.json (a development report, not a registered check).
"""
from __future__ import annotations

import argparse
import json
import os
import shutil
import subprocess
import sys
import tempfile
import time

HERE = os.path.dirname(os.path.abspath(__file__))
ROOT = os.path.dirname(HERE)
sys.path.insert(0, ROOT)
REPO_SRC = '/repo/src'


def scratch_copy():
    d = tempfile.mkdtemp(prefix='ndt_mut_')
    shutil.copytree(REPO_SRC, os.path.join(d, 'src'),
                    ignore=shutil.ignore_patterns('__pycache__', '*.pyc'))
    return d


def apply_edits(root, mutant):
    path = os.path.join(root, 'src', 'numdifftools', mutant['file'])
    with open(path) as f:
        s = f.read()
    for old, new in mutant['edits']:
        if old not in s:
            raise RuntimeError('mutant %s: anchor text not found in %s: %r' % (mutant['id'], mutant['file'], old[:60]))
        s = s.replace(old, new, 1)
    with open(path, 'w') as f:
        f.write(s)


def apply_patch(root, patch):
    p = subprocess.run(['patch', '-p1', '-s', '-d', root, '-i', patch], capture_output=True, text=True)
    if p.returncode != 0:
        raise RuntimeError('patch failed: ' + p.stdout + p.stderr)


def run_check(prop, src, budget, modes=None, seed=0):
    env = dict(os.environ)
    env['VERIF_SRC'] = src
    env['VERIF_BUDGET_S'] = str(budget)
    env['VERIF_SEED'] = str(seed)
    cmd = [os.path.join(ROOT, 'check'), prop, '--tier', 'quick', '--no-evidence']
    if modes:
        cmd += ['--modes', modes]
    t0 = time.monotonic()
    p = subprocess.run(cmd, env=env, capture_output=True, text=True, cwd=ROOT)
    return p.returncode, p.stdout, time.monotonic() - t0


def judge_one(mid, prop, src_root, budget, modes, expect):
    rc, out, wall = run_check(prop, os.path.join(src_root, 'src'), budget, modes)
    viol = [l for l in out.splitlines() if l.startswith('VIOLATION')]
    info = [l for l in out.splitlines() if l.startswith('# ') and ':' in l and 'phase' not in l][-2:]
    verdict = 'caught' if (rc == 1 and viol) else ('clean' if rc == 0 else 'harness-error')
    replay = None
    if viol:
        replay = viol[0].split('replay=')[1]
        try:
            with open(replay) as f:
                doc = json.load(f)
            replay = {'violation': doc['violation'], 'minimised_ops': doc['minimised_ops'],
                      'original_ops': doc['original_ops'], 'mode': doc['mode'],
                      'run_index': doc['run_index']}
        except Exception as e:  # noqa: BLE001
            replay = {'error': repr(e)}
    return {'id': mid, 'property': prop, 'expect': expect, 'verdict': verdict, 'ok': verdict == expect,
            'wall_s': round(wall, 1), 'exit': rc, 'replay': replay, 'tail': out.splitlines()[-4:]}


def main():
    ap = argparse.ArgumentParser()
    ap.add_argument('--budget', type=float, default=40.0)
    ap.add_argument('--only', default='')
    ap.add_argument('--patch-dir', default=None, help='also judge <dir>/<id>/patch.diff mutants')
    ap.add_argument('--no-table', action='store_true')
    ap.add_argument('--legit-dir', default=None,
                    help='<dir>/<id>/patch.diff: legitimate changes, every check must stay clean on them')
    args = ap.parse_args()
    from selftest.mutants import MUTANTS
    only = set(filter(None, args.only.split(',')))
    results = []
    if not args.no_table:
        for m in MUTANTS:
            if only and m['id'] not in only:
                continue
            d = scratch_copy()
            try:
                apply_edits(d, m)
                r = judge_one(m['id'], m['prop'], d, args.budget, m.get('modes'), m['expect'])
            except Exception as e:  # noqa: BLE001
                r = {'id': m['id'], 'ok': False, 'verdict': 'setup-error', 'error': repr(e)}
            finally:
                shutil.rmtree(d, ignore_errors=True)
            r['needs'] = m.get('needs')
            results.append(r)
            print('%-34s %-8s expect=%-7s %s %5.1fs %s' % (r['id'], r.get('verdict'), m['expect'],
                                                          'OK ' if r['ok'] else 'BAD', r.get('wall_s', 0),
                                                          (r.get('replay') or {}).get('violation', '')))
            sys.stdout.flush()
    if args.patch_dir:
        base = os.path.join(ROOT, args.patch_dir) if not os.path.isabs(args.patch_dir) else args.patch_dir
        for mid in sorted(os.listdir(base)):
            patch = os.path.join(base, mid, 'patch.diff')
            if not os.path.exists(patch) or (only and mid not in only):
                continue
            meta = {}
            try:
                with open(os.path.join(base, mid, 'meta.json')) as f:
                    meta = json.load(f)
            except Exception:  # noqa: BLE001
                pass
            d = scratch_copy()
            try:
                apply_patch(d, patch)
                r = judge_one(mid, meta.get('property', 'C09'), d, args.budget, None, 'caught')
            except Exception as e:  # noqa: BLE001
                r = {'id': mid, 'ok': False, 'verdict': 'setup-error', 'error': repr(e)}
            finally:
                shutil.rmtree(d, ignore_errors=True)
            results.append(r)
            print('%-34s %-8s expect=caught  %s %5.1fs %s' % (mid, r.get('verdict'), 'OK ' if r['ok'] else 'BAD',
                                                             r.get('wall_s', 0),
                                                             (r.get('replay') or {}).get('violation', '')))
            sys.stdout.flush()
    if args.legit_dir:
        base = os.path.join(ROOT, args.legit_dir) if not os.path.isabs(args.legit_dir) else args.legit_dir
        for mid in sorted(os.listdir(base)):
            patch = os.path.join(base, mid, 'patch.diff')
            if not os.path.exists(patch) or (only and mid not in only):
                continue
            for prop in ('C09', 'C14'):
                d = scratch_copy()
                try:
                    subprocess.run(['patch', '-p1', '-s', '-f', '-d', d, '-i', patch], capture_output=True)
                    r = judge_one(mid + ':' + prop, prop, d, args.budget, None, 'clean')
                except Exception as e:  # noqa: BLE001
                    r = {'id': mid + ':' + prop, 'ok': False, 'verdict': 'setup-error', 'error': repr(e)}
                finally:
                    shutil.rmtree(d, ignore_errors=True)
                results.append(r)
                print('%-34s %-8s expect=clean   %s %5.1fs' % (r['id'], r.get('verdict'),
                                                              'OK ' if r['ok'] else 'BAD', r.get('wall_s', 0)))
                sys.stdout.flush()
    bad = [r['id'] for r in results if not r['ok']]
    out = {'budget_s': args.budget, 'results': results, 'bad': bad}
    if not only:
        with open(os.path.join(HERE, 'SENSITIVITY.json'), 'w') as f:
            json.dump(out, f, indent=1)
    print('sensitivity: %d mutants, %d not as expected: %s' % (len(results), len(bad), bad))
    return 1 if bad else 0


if __name__ == '__main__':
    sys.exit(main())
