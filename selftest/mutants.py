"""Seeded mutants for the sensitivity self-test.  Every mutant keeps cold single-shot behaviour
intact (so single-shot unit tests cannot see it) but breaks C09 / C14 for some history or schedule.

Each entry: id, property, file (relative to src/numdifftools), list of (old, new) replacements,
what it needs in order to manifest, and the expected verdict of the check.
"""

FD = 'finite_difference.py'
SG = 'step_generators.py'
CORE = 'core.py'
EXT = 'extrapolation.py'
LIM = 'limits.py'

MUTANTS = [
    # ------------------------------------------------------------------ C09: rule cache
    dict(id='c09_cache_key_no_parity', prop='C09', file=FD, expect='caught',
         needs='two configurations with the same (step_ratio, num_terms) but different parity, second one after the first',
         edits=[("fd_rules = FD_RULES.get((step_ratio, parity, num_terms))",
                 "fd_rules = FD_RULES.get((step_ratio, num_terms))"),
                ("FD_RULES[(step_ratio, parity, num_terms)] = fd_rules",
                 "FD_RULES[(step_ratio, num_terms)] = fd_rules")]),
    dict(id='c09_cache_key_terms_clamped', prop='C09', file=FD, expect='caught',
         needs='a rule with more than 3 terms requested after a 3-term rule of the same ratio/parity (or vice versa)',
         edits=[("fd_rules = FD_RULES.get((step_ratio, parity, num_terms))",
                 "fd_rules = FD_RULES.get((step_ratio, parity, min(num_terms, 3)))"),
                ("FD_RULES[(step_ratio, parity, num_terms)] = fd_rules",
                 "FD_RULES[(step_ratio, parity, min(num_terms, 3))] = fd_rules")]),
    dict(id='c09_cache_key_ratio_rounded', prop='C09', file=FD, expect='caught',
         needs='two step ratios that round to the same one-decimal value (1.6 vs 1.6000000000000001 do not; 2.0 vs 2.0000000000000004 do)',
         edits=[("fd_rules = FD_RULES.get((step_ratio, parity, num_terms))",
                 "fd_rules = FD_RULES.get((round(step_ratio, 1), parity, num_terms))"),
                ("FD_RULES[(step_ratio, parity, num_terms)] = fd_rules",
                 "FD_RULES[(round(step_ratio, 1), parity, num_terms)] = fd_rules")]),
    dict(id='c09_cache_row_flipped_in_place', prop='C09', file=FD, expect='caught',
         needs='a flipped rule (even derivative backward, or complex n%8 in 3..6) requested twice, or followed by the unflipped one',
         edits=[("        if self._flip_fd_rule:\n            return -fd_rules[rule_index]\n",
                 "        if self._flip_fd_rule:\n            fd_rules[rule_index] *= -1\n            return fd_rules[rule_index]\n")]),
    dict(id='c09_cache_two_phase_insert', prop='C09', file=FD, expect='caught', modes='thr',
         needs='a second thread looking the key up between the placeholder insert and the fill',
         edits=[("            fd_rules = linalg.pinv(fd_mat)\n            FD_RULES[(step_ratio, parity, num_terms)] = fd_rules\n",
                 "            fd_rules = np.zeros((num_terms, num_terms))\n"
                 "            FD_RULES[(step_ratio, parity, num_terms)] = fd_rules\n"
                 "            fd_rules[...] = linalg.pinv(fd_mat)\n")]),
    # ------------------------------------------------------------------ C09: step generator state
    dict(id='c09_state_assigned_late', prop='C09', file=SG, expect='caught',
         needs='one generator instance used for a second (x, method, n, order) that differs from the first',
         edits=[("        self._state = _STATE(np.asarray(x), method, n, order)\n"
                 "        base_step, step_ratio = self.base_step * self.step_nom, self.step_ratio\n",
                 "        base_step, step_ratio = self.base_step * self.step_nom, self.step_ratio\n"
                 "        self._state = _STATE(np.asarray(x), method, n, order)\n")],
         note='also changes cold results for non-default first requests; kept as a coarse sanity mutant'),
    dict(id='c09_step_nom_memoised', prop='C09', file=SG, expect='caught',
         needs='the same generator (or object) called at a second point with a different |x|',
         edits=[("        x = self._state.x\n        if self._step_nom is None:\n            return get_nominal_step(x)\n",
                 "        x = self._state.x\n        if self._step_nom is None:\n"
                 "            memo = self.__dict__.setdefault('_nom_memo', {})\n"
                 "            key = np.shape(x)\n"
                 "            if key not in memo:\n"
                 "                memo[key] = get_nominal_step(x)\n"
                 "            return memo[key]\n")]),
    # ------------------------------------------------------------------ C09: object state
    dict(id='c09_n_setter_no_rebind', prop='C09', file=CORE, expect='caught',
         needs='n changed between 0 and non-zero on a live object',
         edits=[("        self.fd_rule.n = value\n        self._set_derivative()\n",
                 "        self.fd_rule.n = value\n")]),
    dict(id='c09_richardson_built_once', prop='C09', file=CORE, expect='caught',
         needs='an object called again after order/method/n (hence the extrapolation rule) changed',
         edits=[("        order = self.method_order\n        step = self.fd_rule.richardson_step\n        self.richardson = Richardson(",
                 "        order = self.method_order\n        step = self.fd_rule.richardson_step\n"
                 "        if getattr(self, '_rich_key', None) == (step_ratio, num_terms):\n"
                 "            return\n"
                 "        self._rich_key = (step_ratio, num_terms)\n"
                 "        self.richardson = Richardson(")]),
    dict(id='c09_steps_memoised_by_x', prop='C09', file=CORE, expect='caught',
         needs='the same object called twice at the same x with a different n/order/method in between',
         edits=[("        step_gen = self.step.step_generator_function(x_i, method, n, order)\n        return list(step_gen()), step_gen.step_ratio\n",
                 "        memo = self.__dict__.setdefault('_steps_memo', {})\n"
                 "        key = (x_i.shape, x_i.tobytes())\n"
                 "        if key not in memo:\n"
                 "            step_gen = self.step.step_generator_function(x_i, method, n, order)\n"
                 "            memo[key] = (list(step_gen()), step_gen.step_ratio)\n"
                 "        return memo[key]\n")]),
    dict(id='c09_fx0_memoised', prop='C09', file=CORE, expect='caught',
         needs='the same object called at the same x with different extra args/kwds for the function',
         edits=[("        if self.fd_rule.eval_first_condition or self.full_output:\n            return f(x)\n",
                 "        if self.fd_rule.eval_first_condition or self.full_output:\n"
                 "            memo = self.__dict__.setdefault('_fx0_memo', {})\n"
                 "            key = (np.shape(x), np.asarray(x).tobytes())\n"
                 "            if key not in memo:\n"
                 "                memo[key] = f(x)\n"
                 "            return memo[key]\n")]),
    dict(id='c09_memo_by_id_fun', prop='C09', file=CORE, expect='caught',
         needs='an object dropped and garbage collected, then a new object whose function lands on the same address',
         edits=[("    def _get_steps(self, x_i):\n        method, n, order = self.method, self.n, self.method_order\n",
                 "    _ID_MEMO = {}\n\n"
                 "    def _get_steps(self, x_i):\n        method, n, order = self.method, self.n, self.method_order\n"
                 "        key = (id(self), method, n, order, x_i.shape, x_i.tobytes())\n"
                 "        if key in Derivative._ID_MEMO:\n"
                 "            return Derivative._ID_MEMO[key]\n"
                 "        step_gen = self.step.step_generator_function(x_i, method, n, order)\n"
                 "        Derivative._ID_MEMO[key] = (list(step_gen()), step_gen.step_ratio)\n"
                 "        return Derivative._ID_MEMO[key]\n")]),
    # ------------------------------------------------------------------ C09: threads only
    dict(id='c09_shared_scratch_increments', prop='C09', file=FD, expect='caught', modes='thr',
         needs='two threads inside Jacobian/Gradient difference loops with equal-length x, pre-empted between yield and use',
         edits=[("        e_i = np.zeros(np.shape(h), float)\n        for k in range(n):",
                 "        key = np.shape(h)\n"
                 "        e_i = _SCRATCH.get(key)\n"
                 "        if e_i is None:\n"
                 "            e_i = _SCRATCH[key] = np.zeros(key, float)\n"
                 "        e_i[...] = 0\n"
                 "        for k in range(n):"),
                ("# step_ratio, parity, nterms\nFD_RULES = {}", "# step_ratio, parity, nterms\nFD_RULES = {}\n_SCRATCH = {}")]),
    # ------------------------------------------------------------------ C09: state outside the library
    dict(id='c09_warnings_error_filter_leak', prop='C09', file='limits.py', expect='caught',
         needs='a call whose extrapolated sequence has an all-NaN column leaves an error::RuntimeWarning '
               'filter in the process-wide warnings.filters; a later call that emits a RuntimeWarning '
               '(another all-NaN column, an overflow) raises instead of returning '
               '(re-implementation of a sub-agent change whose files were lost before vetting)',
         edits=[("        shape = errors.shape\n        try:\n            arg_mins = np.nanargmin(errors, axis=0)\n"
                 "            min_errors = np.nanmin(errors, axis=0)\n        except ValueError as msg:\n"
                 "            warnings.warn(str(msg))\n            return np.arange(shape[1])\n",
                 "        shape = errors.shape\n        filters = warnings.filters[:]\n"
                 "        warnings.simplefilter('error', RuntimeWarning)\n        try:\n"
                 "            min_errors = np.nanmin(errors, axis=0)\n"
                 "            arg_mins = np.zeros(shape[1], dtype=int)\n"
                 "        except (ValueError, RuntimeWarning):\n"
                 "            return np.arange(shape[1])\n"
                 "        warnings.filters[:] = filters\n")]),
    # ------------------------------------------------------------------ locks
    dict(id='c09_correct_lock_around_cache', prop='C09', file=FD, expect='clean',
         needs='nothing: guarding the rule cache with a module-level lock is a correct change; the '
               'simulator must not hang or raise an alarm (cooperative lock seam, sim/locks.py)',
         edits=[("import warnings\nimport numpy as np\nfrom numpy import linalg",
                 "import threading\nimport warnings\nimport numpy as np\nfrom numpy import linalg"),
                ("# step_ratio, parity, nterms\nFD_RULES = {}", "# step_ratio, parity, nterms\nFD_RULES = {}\n_FD_LOCK = threading.Lock()"),
                ("        fd_rules = FD_RULES.get((step_ratio, parity, num_terms))\n"
                 "        if fd_rules is None:\n"
                 "            fd_mat = self._fd_matrix(step_ratio, parity, num_terms)\n"
                 "            fd_rules = linalg.pinv(fd_mat)\n"
                 "            FD_RULES[(step_ratio, parity, num_terms)] = fd_rules\n",
                 "        with _FD_LOCK:\n"
                 "            fd_rules = FD_RULES.get((step_ratio, parity, num_terms))\n"
                 "            if fd_rules is None:\n"
                 "                fd_mat = self._fd_matrix(step_ratio, parity, num_terms)\n"
                 "                fd_rules = linalg.pinv(fd_mat)\n"
                 "                FD_RULES[(step_ratio, parity, num_terms)] = fd_rules\n")]),
    dict(id='c09_lock_order_deadlock', prop='C09', file=FD, expect='caught', modes='thr',
         needs='one thread inside rule() (lock A then B) while another is inside _apply() (lock B then A)',
         edits=[("import warnings\nimport numpy as np\nfrom numpy import linalg",
                 "import threading\nimport warnings\nimport numpy as np\nfrom numpy import linalg"),
                ("# step_ratio, parity, nterms\nFD_RULES = {}", "# step_ratio, parity, nterms\nFD_RULES = {}\n_LOCK_A = threading.RLock()\n_LOCK_B = threading.RLock()"),
                ("        fd_rules = FD_RULES.get((step_ratio, parity, num_terms))\n"
                 "        if fd_rules is None:\n"
                 "            fd_mat = self._fd_matrix(step_ratio, parity, num_terms)\n"
                 "            fd_rules = linalg.pinv(fd_mat)\n"
                 "            FD_RULES[(step_ratio, parity, num_terms)] = fd_rules\n",
                 "        with _LOCK_A:\n"
                 "            with _LOCK_B:\n"
                 "                fd_rules = FD_RULES.get((step_ratio, parity, num_terms))\n"
                 "                if fd_rules is None:\n"
                 "                    fd_mat = self._fd_matrix(step_ratio, parity, num_terms)\n"
                 "                    fd_rules = linalg.pinv(fd_mat)\n"
                 "                    FD_RULES[(step_ratio, parity, num_terms)] = fd_rules\n"),
                ("        fd_rule = self.rule(step_ratio)\n\n        num_steps = h.shape[0]",
                 "        with _LOCK_B:\n            fd_rule = self.rule(step_ratio)\n\n        num_steps = h.shape[0]")]),
    # ------------------------------------------------------------------ behaviour-preserving refactors (must NOT be flagged)
    dict(id='c09_refactor_cache_renamed', prop='C09', file=FD, expect='clean',
         needs='nothing: the cache global is renamed (the dict seam is lost; the check must degrade, not alarm)',
         edits=[("# step_ratio, parity, nterms\nFD_RULES = {}", "# step_ratio, parity, nterms\n_RULE_TABLES = {}"),
                ("fd_rules = FD_RULES.get((step_ratio, parity, num_terms))", "fd_rules = _RULE_TABLES.get((step_ratio, parity, num_terms))"),
                ("FD_RULES[(step_ratio, parity, num_terms)] = fd_rules", "_RULE_TABLES[(step_ratio, parity, num_terms)] = fd_rules")]),
    dict(id='c09_refactor_no_cache', prop='C09', file=FD, expect='clean',
         needs='nothing: the rule is recomputed on every request (slower, same bits)',
         edits=[("        fd_rules = FD_RULES.get((step_ratio, parity, num_terms))\n        if fd_rules is None:\n",
                 "        fd_rules = None\n        if fd_rules is None:\n")]),
    dict(id='c14_refactor_epsalg_numpy_table', prop='C14', file=EXT, expect='clean',
         needs='nothing: abs() instead of np.abs() in the vanishing-difference guard',
         edits=[("                if np.abs(delta) <= 1.0e-60:", "                if abs(delta) <= 1.0e-60:")]),
    dict(id='c09_legit_numerics_changed', prop='C09', file=EXT, expect='clean',
         needs='nothing: the error-estimate constant and dea3 tolerance factor are changed - every result '
               'changes, but identically in every history (C09 is relative to a fresh evaluation)',
         edits=[("fact = np.maximum(12.7062047361747 * np.sqrt(cov1), EPS * 10.)",
                 "fact = np.maximum(10.0 * np.sqrt(cov1), EPS * 10.)"),
                ("np.where(converged, tol2 * 10, np.abs(result - e_2))", "np.where(converged, tol2 * 8, np.abs(result - e_2))")]),
    dict(id='c09_legit_setter_validation', prop='C09', file=CORE, expect='clean',
         needs='nothing: the order / n setters reject invalid values with ValueError (the object keeps its '
               'old configuration); the plan-level model of "current configuration" must not be trusted '
               'after a setter raised',
         edits=[("    @order.setter\n    def order(self, order):\n        self.fd_rule.order = order\n",
                 "    @order.setter\n    def order(self, order):\n"
                 "        if self.method in ('central', 'complex') and order % 2:\n"
                 "            raise ValueError('order must be even for method %s' % self.method)\n"
                 "        self.fd_rule.order = order\n"),
                ("    @n.setter\n    def n(self, value):\n        self.fd_rule.n = value\n",
                 "    @n.setter\n    def n(self, value):\n"
                 "        if value > 4 and self.method == 'forward':\n"
                 "            raise ValueError('n too large for forward differences')\n"
                 "        self.fd_rule.n = value\n")]),
    # ------------------------------------------------------------------ equivalent mutant (must NOT be flagged)
    dict(id='c09_equiv_lookup_copy', prop='C09', file=FD, expect='clean',
         needs='nothing: returning a copy of the cached row is behaviour preserving',
         edits=[("        return fd_rules[rule_index]\n\n    @staticmethod\n    def _vstack",
                 "        return fd_rules[rule_index].copy()\n\n    @staticmethod\n    def _vstack")]),
    # ------------------------------------------------------------------ C14
    dict(id='c14_epsalg_class_table', prop='C14', file=EXT, expect='caught',
         needs='a second EpsAlg instance alive (or created later) in the same process',
         edits=[("    def __init__(self):\n        self.epstab = []\n",
                 "    epstab = []\n\n    def __init__(self):\n        pass\n")]),
    dict(id='c14_epsalg_parity_late', prop='C14', file=EXT, expect='caught',
         needs='at least 7 terms: the returned entry has the wrong parity from the 7th term on',
         edits=[("            estlim = epstab[n % 2]\n",
                 "            estlim = epstab[n % 2] if n < 6 else epstab[(n + 1) % 2]\n")]),
    dict(id='c09_limit_singular_mask_cached_by_shape', prop='C09', file=LIM, expect='caught',
         needs='the same Limit object called at two same-shape points whose singular positions differ',
         edits=[("        k = np.flatnonzero(np.isnan(f_z))\n",
                 "        if getattr(self, '_sing', None) is None or self._sing[0] != z.shape:\n"
                 "            self._sing = (z.shape, np.flatnonzero(np.isnan(f_z)))\n"
                 "        k = self._sing[1]\n")]),
    dict(id='c09_limit_rule_built_once', prop='C09', file=LIM, expect='caught',
         needs='a Limit evaluated, its order changed, evaluated again: the extrapolation rule of the first evaluation is kept',
         edits=[("        self._set_richardson_rule(self.step.step_ratio, self.order + 1)\n",
                 "        if getattr(self, '_rule_for', None) is None:\n"
                 "            self._set_richardson_rule(self.step.step_ratio, self.order + 1)\n"
                 "            self._rule_for = self.order\n")]),
    dict(id='c14_epsalg_window_161', prop='C14', file=EXT, expect='caught',
         needs='more than 161 terms fed to one EpsAlg: only the last 161 are kept, wrong entry from the 163rd term on',
         edits=[("        epstab = self.epstab\n        n = len(epstab)\n        epstab.append(s_n)\n",
                 "        epstab = self.epstab\n        if len(epstab) > 160:\n            del epstab[0]\n        n = len(epstab)\n        epstab.append(s_n)\n")]),
    dict(id='c14_dea_no_cap_on_converged', prop='C14', file=EXT, expect='caught',
         needs='more terms than limexp after the converged exit (the original defect fixed in 73db381)',
         edits=[("                # omit the part of the table that is not updated yet\n                n = 2*i\n", ""),
                ("        #      shift the table.\n        if n == limexp - 1:\n            n = limexp - 2  # 2*(limexp//2) - 1\n        self._shift_table(epstab, n, newelm, old_n)\n        if not all_converged:\n",
                 "        if not all_converged:\n            if n == limexp - 1:\n                n = limexp - 2  # 2*(limexp//2) - 1\n            self._shift_table(epstab, n, newelm, old_n)\n")]),
    dict(id='c14_dea_floor_lost', prop='C14', file=EXT, expect='caught',
         needs='a constant / converged tail after a guard-triggered restart (the original defect fixed in 8cacbf0)',
         edits=[("        if self._nres > 0:\n            # the table was restarted: keep the error floor of the extrapolated results\n            abserr = max(abserr, 5.0*_EPS*abs(result))\n", "")]),
    dict(id='c14_dea_nan_guard', prop='C14', file=EXT, expect='caught',
         needs='table differences in the subnormal range (the original defect fixed in 91c3329)',
         edits=[("any_converged = not epsinf > 1e-4", "any_converged = epsinf <= 1e-4")]),
    dict(id='c14_dea_cap_off_by_one', prop='C14', file=EXT, expect='clean',
         needs='NOT a violation of C14 as stated: capping one call later writes a term into a res3la slot, '
               'which only perturbs later error estimates and shortens the table by two; nothing raises, all '
               'values stay finite and above the floor, and the property does not pin Dea values after the '
               'third term (documented limit of the C14 oracle, DESIGN 5.4)',
         edits=[("        if n == limexp - 1:\n            n = limexp - 2  # 2*(limexp//2) - 1\n",
                 "        if n == limexp:\n            n = limexp - 2  # 2*(limexp//2) - 1\n")]),
    dict(id='c14_dea_shared_table_by_size', prop='C14', file=EXT, expect='caught',
         needs='two live Dea instances with the same limexp',
         edits=[("        self.epstab = np.zeros(n + 5)\n",
                 "        self.epstab = _TABLES.setdefault(n, np.zeros(n + 5))\n"),
                ("class Dea(object):", "_TABLES = {}\n\n\nclass Dea(object):")]),
    dict(id='c14_dea_third_term_sign', prop='C14', file=EXT, expect='caught',
         needs='third term outside the guards: the new element uses the wrong sign of a reciprocal difference',
         edits=[("                sss = 1.0 / delta1 + 1.0 / delta2 - 1.0 / delta3\n",
                 "                sss = 1.0 / delta1 + 1.0 / delta2 - 1.0 / delta3 if n != 2 or i else"
                 " 1.0 / delta1 - 1.0 / delta2 - 1.0 / delta3\n")]),
]
