"""Generates MANIFEST.json (kept as a script so the long texts stay readable)."""
import json

NA = {
 'C01': 'Accuracy of Derivative(...)(x) against the exact derivative is a pure function of (f, x, method, n, order, step options): no schedule, clock, fault, crash point or history in the statement; one input gives one execution. Deciding it needs input generation against exact oracles, which is a different technique (DESIGN 6).',
 'C02': 'Honesty/self-consistency of the full_output record is computed from the samples of one call only; pure function of the call arguments, nothing for a scheduler or fault injector to vary (DESIGN 6).',
 'C03': 'Entries and shapes of Jacobian/Gradient/directionaldiff are a pure function of (f, x, method, order); no state, schedule or fault is involved (DESIGN 6).',
 'C04': 'Hessian symmetry/correctness and Hessdiag agreement are pure functions of (f, x, method, order) (DESIGN 6).',
 'C05': 'The set of evaluation points is observable at the f seam, but one input produces exactly one fixed evaluation trace; recording it is runtime monitoring of a deterministic function, not simulation (the C09 harness records the trace only as a diagnostic) (DESIGN 6).',
 'C06': 'Exactness/order of the finite-difference rules is an algebraic identity of the weights for a configuration. Its only stateful ingredient, that rule() may return a cached row, is C09\'s cache clause and is decided there (DESIGN 6).',
 'C07': 'Richardson weights/extrapolation are stateless functions of (ratio, step, order, num_terms, sequence) (DESIGN 6).',
 'C08': 'Elementwise behaviour on arrays and argument forwarding are metamorphic relations between pure calls; no history or schedule dimension (DESIGN 6).',
 'C10': 'Step-generator sequences are a closed-form function of the options and (x, method, n, order); the remembered _state is overwritten at every request and instance reuse is C09\'s generator clause, decided there (DESIGN 6).',
 'C11': 'Misuse raising ValueError is input validation of a single call: pure function of the arguments (DESIGN 6).',
 'C12': 'Bicomplex arithmetic is immutable value arithmetic with no state at all (DESIGN 6).',
 'C13': 'dea3 is a stateless vectorised function; its catch_warnings side effect concerns no value it returns (DESIGN 7.2).',
 'C15': 'fd_weights/fd_weights_all are a pure recursion on their arguments (DESIGN 6).',
 'C16': 'fd_derivative is a pure function of (fx, x, n, m) (DESIGN 6).',
 'C17': 'Taylor\'s radius-search state is re-initialised at the top of every call, so each call is a pure function of (f, z0, n, r, options); nothing outlives a call for a history to act on (DESIGN 6).',
 'C18': 'Limit/Residue compute per call; the only carried attribute (richardson) is rebuilt before use in every call; pure function of the arguments (DESIGN 6).',
 'C19': 'nd_scipy wrappers are stateless forwarding to scipy.optimize approx_derivative (DESIGN 6).',
}

m = {
 'version': 1,
 'setup_cmd': "/venv/bin/python -B -c \"import sys; sys.path.insert(0,'/repo/src'); import numpy, scipy, numdifftools; print('setup ok', numpy.__version__, scipy.__version__)\"",
 'hooks': {
  'guard': 'NUMDIFFTOOLS_VERIF',
  'enable': 'no source hooks are needed: pre-emption comes from sys.settrace, the rule-cache seam from replacing the module global finite_difference.FD_RULES at run time, the user-function seam from wrapping the callable; checks import /repo/src directly from the working tree',
  'baseline_off_cmd': 'cd /repo && /venv/bin/python -m pytest -ra -q -p no:cacheprovider --timeout=900 --continue-on-collection-errors',
  'source_commits': [],
  'add_only': True,
 },
 'engines': [
  {'name': 'dsim', 'path': 'sim/', 'serves_properties': ['C09', 'C14'],
   'kind_free_text': 'purpose-built deterministic simulator: every run and every reference is a fork of one of four identical, stationary fork servers of a never-used interpreter (canonical re-exec image, ASLR off); baton-passing real threads pre-empted at sys.settrace line events, mid-line at Python-level calls made from library lines, at the cache-dict seam, the user-function seam and at cooperative library locks; two-stage schedule search (seeded random/PCT-style schedules, then conflict-directed schedules derived from the recorded touches of process-shared objects); seeded plan generator, fault injectors (f raises, async abort at a library line, cache clear/evict/prewarm/flood, drop+gc+respawn, re-entrancy), hot-line biased pre-emption with atomicity probe, fork-server (identical-heap, no-ASLR) isolation of every run and of every fresh-state reference, delta-debugging shrinker, replay files'},
 ],
 'checks': [
  {
   'property_id': 'C09',
   'quick_cmd': './check C09 --tier quick',
   'thorough_cmd': './check C09 --tier thorough',
   'evidence_file': 'evidence/C09.json',
   'replay_cmd_template': './check C09 --replay {path}',
   'engine': 'dsim',
   'technique': 'deterministic simulation with fault injection: seeded search over operation histories, thread schedules and fault sequences, bit-for-bit against fresh-interpreter-state references',
   'level_claimed': {
     'category': 'exploration',
     'text': 'Seeded exploration of histories (<=12 ops per caller: construct, call, set/restore n/order/method, shared step generators, directionaldiff, Limit/Residue mini-histories at singular and regular points with method/order changed and restored, cache clear/evict/prewarm, drop+gc, re-entrant functions), of schedules (1..16 baton-passing threads pre-empted at library source lines, cache accesses and user-function boundaries) and of fault sequences (f raising at its k-th evaluation, asynchronous abort at the j-th library line, cache clear/evict/prewarm/flood, drop+gc+respawn); a second stage replays each threaded run up to a recorded touch of a shared object, parks that caller and lets the conflicting callers run to completion inside the window. Every un-faulted call is compared bit-for-bit with two references evaluated in forks of a never-used interpreter: the same object rebuilt with only its own setter sequence, and a brand-new object with the current configuration. Sampling, not proof; the property quantifies over histories and schedules, which is exactly what is sampled.',
     'design_ref': 'DESIGN.md sections 3 and 4'},
   'level_note': 'Trusts: sys.settrace line/call events deterministic; fork() faithfully copies the pristine fork-server state; numpy/scipy bit-reproducible single-threaded (re-tested each run by the determinism self-test, which also fingerprints the allocator state). Pre-emption granularity is a source line, a Python-level call made from a library line, or a seam access - not a bytecode; C-level callees give no pre-emption point. Asynchronous aborts are injected at library line boundaries outside `with` lines and outside library critical sections.',
  },
 ],
 'not_applicable': [{'property_id': k, 'reason': v} for k, v in sorted(NA.items())],
 'notes': 'This task studies one technique family (deterministic simulation with fault injection). The code base has no clock, I/O, network, tasks or timers; only the properties that quantify over histories and schedules (C09, C14) are simulation targets. See DESIGN.md section 0/6.',
}
C14 = {
   'property_id': 'C14',
   'quick_cmd': './check C14 --tier quick',
   'thorough_cmd': './check C14 --tier thorough',
   'evidence_file': 'evidence/C14.json',
   'replay_cmd_template': './check C14 --replay {path}',
   'engine': 'dsim',
   'technique': 'deterministic simulation: seeded search over term histories and instance/thread interleavings of live Dea/EpsAlg accelerators, checked step by step against an exact-rational Wynn table model, totality invariants and fork-isolated single-instance references',
   'level_claimed': {
     'category': 'exploration',
     'text': 'Seeded exploration of streaming histories (lengths 1..200, limexp 3..60, up to 6 live instances fed in scheduler-chosen order on 1..8 threads, retire/respawn). After every feed: EpsAlg is compared with the highest even-order entry of an exact rational epsilon table (witness-scaled tolerance, vanishing differences excluded with a margin); Dea must not raise, must stay finite and non-negative, must agree with dea3 / EpsAlg on the first three terms outside the guards, and must keep abserr >= 5 eps |result| from the third term on; every instance must equal bit-for-bit a lone instance fed the same stream in a fresh interpreter (isolation). Caveat stated in DESIGN 5: there is no clock or I/O here; the schedule dimension is only which instance/thread advances next.',
     'design_ref': 'DESIGN.md section 5'},
   'level_note': 'Trusts the harness exact-rational Wynn table (about 30 lines) and the witness-scaled tolerance rule; exact EpsAlg comparison for prefixes <= 60 terms (quick; dedicated deep runs of 105..200 terms in 4 % of the sequential runs) / 200 (thorough) and only where the double witness shows the table entry is well conditioned; Dea values after the third term are not pinned by the property (only totality, finiteness, floor, isolation).',
}
import os, sys
if os.path.exists(os.path.join(os.path.dirname(os.path.abspath(__file__)), 'checks', 'c14.py')):
    m['checks'].append(C14)
else:
    m['not_applicable'].append({'property_id': 'C14', 'reason': 'claimed in DESIGN 5 (streaming Dea/EpsAlg state machines); check not yet committed at this revision - will move to checks when checks/c14.py lands'})
    m['not_applicable'].sort(key=lambda e: e['property_id'])
json.dump(m, open(os.path.join(os.path.dirname(os.path.abspath(__file__)), 'MANIFEST.json'), 'w'), indent=1)
print('written')
