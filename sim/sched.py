"""Deterministic thread scheduler: real threads, one baton, pre-emption at intercepted points.

Each simulated caller thread is a real ``threading.Thread`` but at most one of them is ever
runnable: a thread parks on its private semaphore until it is handed the baton and gives the baton
back only at a *yield point*.  The OS scheduler and the GIL therefore never choose who runs.

Yield points:
  L  every ``line`` event (sys.settrace) in a frame whose code lives under the library root
  F  entry to an evaluation of the user function      R  return from it
  Cg/Ch/Cm/Cs/Cx  accesses to the shared rule cache through the dict seam
  O  operation boundaries of a task
Opcode events are not used: they are not replay-stable under CPython 3.12's adaptive specialisation.

A schedule is recorded as segments ``[task, n_yield_points]`` and can be replayed verbatim.
"""
from __future__ import annotations

import _thread
import os
import random
import sys
import threading

from . import locks
from .common import LIB_ROOT

M64 = (1 << 64) - 1

KIND_CODE = {'L': 1, 'F': 2, 'R': 3, 'Cg': 4, 'Ch': 5, 'Cm': 6, 'Cs': 7, 'Cx': 8, 'O': 9,
             'D+': 10, 'D-': 11, 'E': 12, 'H': 13, 'B': 14, 'X': 15, 'HX': 16}
HOT = frozenset(('Cm', 'Cs', 'F', 'D+', 'H', 'HX'))
_HOTLINES = None


_WITHLINES = None


def hotlines():
    global _HOTLINES, _WITHLINES
    if _HOTLINES is None:
        from .hotlines import hot_lines, with_lines
        _HOTLINES = hot_lines(LIB_ROOT)
        _WITHLINES = with_lines(LIB_ROOT)
    return _HOTLINES


def withlines():
    hotlines()
    return _WITHLINES


def shared_roots():
    """Mutable containers bound at module level or class level of the library: process-shared state.

    Returns (names, containers).  Used only to *place* pre-emptions (a frame that names such a
    container, or receives one of its elements as an argument, is about to touch shared state)."""
    names, roots, labels = set(), [], []
    libmods = set()
    for mod in list(sys.modules.values()):
        f = getattr(mod, '__file__', None)
        if f and f.startswith(LIB_ROOT):
            libmods.add(mod.__name__)

    def lib_instance(v):
        t = type(v)
        return (getattr(t, '__module__', None) in libmods and not isinstance(v, type)
                and hasattr(v, '__dict__') and not callable(v))

    for mod in sorted((m for m in list(sys.modules.values()) if getattr(m, '__file__', None)),
                      key=lambda m: m.__name__):
        f = getattr(mod, '__file__', None)
        if not f or not f.startswith(LIB_ROOT) or (os.sep + 'tests' + os.sep) in f:
            continue
        for k, v in list(vars(mod).items()):
            if k.startswith('__'):
                continue
            if isinstance(v, (dict, list, set)):
                names.add(k)
                roots.append(v)
                labels.append(mod.__name__.split('.')[-1] + '.' + k)
            elif isinstance(v, type) and getattr(v, '__module__', None) == mod.__name__:
                for ck, cv in list(vars(v).items()):
                    if ck.startswith('__'):
                        continue
                    if isinstance(cv, (dict, list, set)):
                        names.add(ck)
                        roots.append(cv)
                        labels.append(mod.__name__.split('.')[-1] + '.' + k + '.' + ck)
                    elif lib_instance(cv) and getattr(cv, '__dict__', None):
                        # a stateful helper object shared by all instances of the class
                        roots.append([cv])
                        labels.append(mod.__name__.split('.')[-1] + '.' + k + '.' + ck)
            elif lib_instance(v) and getattr(v, '__dict__', None) and k != 'one_step':
                roots.append([v])        # a module-level stateful instance (singleton helper)
                labels.append(mod.__name__.split('.')[-1] + '.' + k)
    return names, roots, labels


class AbortInjected(BaseException):
    """Asynchronous abort injected at a library line (KeyboardInterrupt / MemoryError class)."""


class SimInterrupt(BaseException):
    """BaseException raised *by the user function* (models a user interrupt inside f)."""


class Scheduler(object):
    def __init__(self, ntasks, spec, trace=True, max_points=2_000_000):
        self.ntasks = ntasks
        self.spec = spec or {'mode': 'explore', 'seed': 0}
        self.mode = self.spec.get('mode', 'explore')
        self.trace = trace
        self.max_points = max_points
        self.rng = random.Random(self.spec.get('seed', 0))
        self.mean_gap = int(self.spec.get('mean_gap', 50))
        self.budget = int(self.spec.get('budget', 8))
        self.bias = float(self.spec.get('bias', 0.0))
        self.probe = float(self.spec.get('probe', 0.0))
        # conflict-directed refinement: touches of shared objects recorded in the base run, and the
        # 'directed' mode that replays a base schedule up to one touch of a victim task, then lets
        # the named tasks run to completion inside that window before the victim continues
        self.task_points = [0] * ntasks
        self.touches = []
        self.cur_obj = None
        self.record_touches = ntasks > 1 and self.mode in ('explore', 'directed')
        self.victim = self.spec.get('victim')
        self.victim_at = self.spec.get('at')
        self.drain_queue = list(self.spec.get('drain', []))
        # tasks held back (not scheduled at all) until the victim's window opens, so that callers
        # that ran BEFORE the victim in the base run can also be placed inside its window
        self.hold = set(self.spec.get('hold', [])) if self.mode == 'directed' else set()
        self.fired = False
        if self.mode == 'directed':
            self.alias = True
        self.targets = set(self.spec.get('targets') or ())     # ordinals of hot points to pre-empt at
        self.hot_ordinal = 0
        # the alias watch always records touches in multi-task runs; the spec's 'alias' flag only
        # decides whether its hot points also attract randomly placed pre-emptions
        self.alias = trace and ntasks > 1
        self.alias_bias = bool(self.spec.get('alias', False))
        self.root_names, self.roots, self.root_labels = (shared_roots() if self.alias
                                                          else (set(), [], []))
        self.name_label = {}
        for lab in self.root_labels:
            self.name_label.setdefault(lab.rsplit('.', 1)[-1], lab)
        self.shared_ids = set()
        self.shared_sig = None
        self.hot_frames = {}
        self.id_to_key = {}
        self.code_hot = {}
        self.alias_hot_points = 0
        self.call_done = [False] * ntasks
        self.return_to = None
        self.probe_runner = None
        self.hot_pending = [0] * ntasks
        self.hot_src = [None] * ntasks
        self.probe_switches = 0
        self.hot_points = 0
        self.pick = self.spec.get('pick', 'uniform')
        self.prio = list(self.spec.get('prio', range(ntasks)))
        self.segments_in = [list(s) for s in self.spec.get('segments', [])]
        self.seg_pos = 0
        self.diverged = False
        # parking places: raw locks used as binary semaphores (never the patched threading.Lock)
        self.sems = [_thread.allocate_lock() for _ in range(ntasks)]
        for lk in self.sems:
            lk.acquire()
        self.main_sem = _thread.allocate_lock()
        self.main_sem.acquire()
        self.blocked = set()
        self.lock_blocks = 0
        self.runnable = set(range(ntasks))
        self.current = None
        self.points = 0
        self.seg_count = 0
        self.segments = []
        self.switches = 0
        self.h = 1469598103934665603
        self.capped = False
        self.countdown = self._gap()
        # abort faults: per task remaining library line events before AbortInjected is raised
        self.abort_left = [0] * ntasks
        self.abort_fired = [False] * ntasks
        # probes
        self.in_dea3 = [0] * ntasks
        self.in_miss = [False] * ntasks
        self.probe_switch_in_dea3 = 0
        self.probe_switch_in_miss = 0
        self.conflict = []          # ordered (task, kind, key) events on shared state
        self.kind_counts = {}
        self.errors = []
        self._tracers = [self._make_tracer(t) for t in range(ntasks)]

    # ---------------------------------------------------------------- policy
    def _gap(self):
        if self.mode != 'explore' or self.ntasks < 2:
            return 1 << 60
        # geometric gap with the configured mean
        g = 1
        p = 1.0 / max(1, self.mean_gap)
        u = self.rng.random()
        if p < 1.0:
            import math
            g = int(math.log(max(u, 1e-300)) / math.log(1.0 - p)) + 1
        return g

    def _pick_next(self, exclude, allow_self=True):
        pool = self.runnable - self.blocked - self.hold
        if not pool - {exclude}:
            pool = self.runnable - self.hold
        if not pool - {exclude} and self.hold:
            self.hold = set()                  # nobody else is left: the held tasks must run now
            pool = self.runnable
        cands = sorted(pool - {exclude}) if exclude is not None else sorted(pool)
        if not cands:
            return exclude if exclude in self.runnable else None
        if self.mode in ('replay', 'directed') and not self.fired:
            while self.seg_pos < len(self.segments_in):
                t = self.segments_in[self.seg_pos][0]
                if t in self.hold:
                    self.seg_pos += 1
                    continue
                if t in self.runnable and t != exclude and (t not in self.blocked or t in cands):
                    return t
                if t == exclude and exclude in self.runnable and allow_self:
                    return t
                self.seg_pos += 1
                self.diverged = True
            self.diverged = True
            return cands[0]
        if self.mode == 'directed':
            return cands[0]
        if self.pick == 'prio':
            return max(cands, key=lambda t: (self.prio[t % len(self.prio)], -t))
        return cands[self.rng.randrange(len(cands))]

    # ---------------------------------------------------------------- yield points
    def yield_point(self, tid, kind, lineno=0):
        self.points += 1
        self.seg_count += 1
        self.h = ((self.h * 1099511628211) ^ ((tid << 24) ^ (KIND_CODE[kind] << 16) ^ lineno)) & M64
        kc = self.kind_counts
        kc[kind] = kc.get(kind, 0) + 1
        if self.ntasks < 2:
            return
        tp = self.task_points[tid] + 1
        self.task_points[tid] = tp
        obj = self.cur_obj
        if obj is not None:
            self.cur_obj = None
            if self.record_touches and len(self.touches) < 6000:
                self.touches.append((self.points, tid, tp, obj, kind, lineno))
        if self.points > self.max_points:
            self.capped = True
            return
        if self.mode == 'directed':
            if self.fired:
                return                      # after the window: everybody runs to completion
            if tid == self.victim and tp == self.victim_at:
                self.fired = True
                self.hold = set()
                self.drain_queue = [t for t in self.drain_queue if t in self.runnable and t != tid]
                if self.drain_queue:
                    nxt = self.drain_queue.pop(0)
                    self.probe_switches += 1
                    self._switch(tid, nxt)
                return
        if self.mode in ('replay', 'directed'):
            if self.seg_pos < len(self.segments_in):
                seg = self.segments_in[self.seg_pos]
                if seg[0] != tid:
                    self.diverged = True
                elif len(seg) > 2 and seg[2]:
                    if self.seg_count > seg[1]:
                        self.diverged = True
                elif self.seg_count >= seg[1]:
                    self.seg_pos += 1
                    nxt = self._pick_next(None)
                    if nxt is not None and nxt != tid:
                        self._switch(tid, nxt)
                    else:
                        self._close_segment(tid)
            return
        if self.return_to is not None and tid == self.probe_runner and kind == 'O' \
                and self.call_done[tid]:
            # atomicity probe: the task that was let in has finished one whole operation
            back, self.return_to, self.probe_runner = self.return_to, None, None
            if back in self.runnable and back != tid:
                self._switch(tid, back)
                return
        do = False
        hot = False
        self.countdown -= 1
        if kind in HOT and self.targets:
            # PCT-style: pre-empt at pre-drawn ordinals of the hot points, spread over the whole run,
            # always as an atomicity probe (the task let in completes one call, then control returns)
            self.hot_ordinal += 1
            if self.hot_ordinal in self.targets and len(self.runnable) > 1 and self.return_to is None:
                nxt = self._pick_next(tid)
                if nxt is not None and nxt != tid:
                    self.return_to, self.probe_runner = tid, nxt
                    self.call_done[nxt] = False
                    self.probe_switches += 1
                    self._switch(tid, nxt)
                    return
        if self.budget > 0:
            if self.countdown <= 0:
                do = True
            elif self.bias > 0.0 and kind in HOT and self.rng.random() < self.bias:
                do = hot = True
        if do and len(self.runnable) > 1:
            self.countdown = self._gap()
            self.budget -= 1
            nxt = self._pick_next(tid)
            if nxt is not None and nxt != tid:
                if hot and self.probe > 0.0 and self.return_to is None \
                        and self.rng.random() < self.probe:
                    self.return_to, self.probe_runner = tid, nxt
                    self.call_done[nxt] = False
                    self.probe_switches += 1
                self._switch(tid, nxt)
        elif do:
            self.countdown = self._gap()

    def yield_blocked(self, tid):
        """Called by a task that cannot get a (cooperative) lock: somebody else must run."""
        self.points += 1
        self.seg_count += 1
        self.lock_blocks += 1
        self.h = ((self.h * 1099511628211) ^ ((tid << 24) ^ (KIND_CODE['B'] << 16))) & M64
        self.kind_counts['B'] = self.kind_counts.get('B', 0) + 1
        self.blocked.add(tid)
        if self.hold and not (self.runnable - self.blocked - self.hold):
            self.hold = set()         # only held-back callers could still make progress: let them
        if self.ntasks < 2 or not (self.runnable - self.blocked):
            self.blocked.discard(tid)
            raise locks.DeadlockDetected('all live tasks are blocked on locks of the code under test')
        if self.points > self.max_points:
            self.capped = True
            raise locks.DeadlockDetected('step cap reached while waiting for a lock')
        if self.mode in ('replay', 'directed') and self.seg_pos < len(self.segments_in) \
                and self.segments_in[self.seg_pos][0] == tid:
            self.seg_pos += 1
        nxt = self._pick_next(tid, allow_self=False)
        if nxt is None or nxt == tid:
            self.blocked.discard(tid)
            raise locks.DeadlockDetected('nobody else can run')
        self._switch(tid, nxt)

    def note_unblock(self):
        if self.blocked:
            self.blocked.clear()

    def _close_segment(self, tid, end=False):
        self.segments.append([tid, self.seg_count, 1] if end else [tid, self.seg_count])
        self.seg_count = 0

    def _switch(self, frm, to):
        self._close_segment(frm)
        self.switches += 1
        if any(self.in_dea3[t] for t in range(self.ntasks)):
            self.probe_switch_in_dea3 += 1
        if any(self.in_miss):
            self.probe_switch_in_miss += 1
        self.current = to
        self.sems[to].release()
        self.sems[frm].acquire()

    def _refresh_shared(self):
        sig = tuple(len(r) for r in self.roots)
        if sig == self.shared_sig:
            return
        self.shared_sig = sig
        ids = {}
        for rn, r in zip(self.root_labels, self.roots):
            ids[id(r)] = ('root', rn)
            try:
                items = list(r.items()) if isinstance(r, dict) else list(enumerate(r))
            except (RuntimeError, TypeError):
                continue
            for k, v in items[:512]:
                if isinstance(v, (int, float, str, bytes, bool, type(None), tuple, frozenset)):
                    continue            # immutable values are not shared *state*
                lab = ('elem', rn, repr(k)[:80])
                ids[id(v)] = lab
                if isinstance(v, (list, dict, set)) and len(v) <= 64:
                    for w in (v.values() if isinstance(v, dict) else v):
                        if not isinstance(w, (int, float, str, bytes, bool, type(None), tuple)):
                            ids.setdefault(id(w), lab)
        self.shared_ids = ids

    def _frame_is_hot(self, frame):
        """Label of the shared object this new frame is about to work on, or None."""
        code = frame.f_code
        if code.co_argcount or code.co_kwonlyargcount:
            self._refresh_shared()
            ids = self.shared_ids
            if ids:
                for v in frame.f_locals.values():
                    lab = ids.get(id(v))
                    if lab is not None:
                        return lab
        ch = self.code_hot.get(code)
        if ch is None:
            hit = sorted(self.root_names.intersection(code.co_names))
            ch = self.code_hot[code] = ('root', self.name_label.get(hit[0], hit[0])) if hit else False
        return ch or None

    def note_conflict(self, tid, kind, key):
        self.conflict.append((tid, kind, key))

    # ---------------------------------------------------------------- tracing
    def _make_tracer(self, tid):
        sched = self
        hot_files = hotlines() if self.trace else {}
        with_files = withlines()
        alias = self.alias

        def local(frame, event, arg):
            if event == 'line':
                left = sched.abort_left[tid]
                if left:
                    left -= 1
                    if left == 0 and (locks.HELD.get(tid, 0) > 0 or frame.f_lineno in
                                      with_files.get(frame.f_code.co_filename, ())):
                        # asynchronous aborts are injected outside critical sections of the library
                        # only: the exit sequence of `with lock:` is re-visited as a line event, and
                        # an exception raised by the tracer there would skip __exit__ - a lock leak
                        # that a real KeyboardInterrupt cannot produce
                        left = 1
                    sched.abort_left[tid] = left
                    if left == 0:
                        sched.abort_fired[tid] = True
                        raise AbortInjected('abort injected at %s:%d' % (
                            frame.f_code.co_filename[len(LIB_ROOT):], frame.f_lineno))
                pend = sched.hot_pending[tid]
                if pend:
                    sched.hot_pending[tid] = pend - 1
                    sched.hot_points += 1
                    sched.cur_obj = sched.hot_src[tid]
                    sched.yield_point(tid, 'H', frame.f_lineno)
                elif alias and id(frame) in sched.hot_frames:
                    sched.alias_hot_points += 1
                    sched.cur_obj = sched.hot_frames[id(frame)]
                    sched.yield_point(tid, 'H' if sched.alias_bias else 'L', frame.f_lineno)
                else:
                    sched.yield_point(tid, 'L', frame.f_lineno)
                if hot_files:
                    hs = hot_files.get(frame.f_code.co_filename)
                    if hs is not None and frame.f_lineno in hs:
                        sched.hot_pending[tid] = 2
                        sched.hot_src[tid] = ('static', '%s:%d' % (
                            frame.f_code.co_filename[len(LIB_ROOT):], frame.f_lineno))
            elif event == 'return':
                if alias:
                    sched.hot_frames.pop(id(frame), None)
                if frame.f_code.co_name == 'dea3':
                    sched.in_dea3[tid] -= 1
                    sched.yield_point(tid, 'D-')
            return local

        def glob(frame, event, arg):
            if event == 'call':
                code = frame.f_code
                if code.co_filename.startswith(LIB_ROOT):
                    if code.co_name == 'dea3':
                        sched.in_dea3[tid] += 1
                        sched.yield_point(tid, 'D+')
                    if alias:
                        lab = sched._frame_is_hot(frame)
                        if lab is not None:
                            sched.hot_frames[id(frame)] = lab
                    return local
                # a Python-level function of numpy / scipy / the caller entered straight from a
                # library line: a pre-emption point in the MIDDLE of that source line
                back = frame.f_back
                if back is not None and back.f_code.co_filename.startswith(LIB_ROOT):
                    if sched.hot_pending[tid] or (alias and id(back) in sched.hot_frames):
                        sched.alias_hot_points += 1
                        if sched.hot_pending[tid]:
                            sched.cur_obj = sched.hot_src[tid]
                        elif alias:
                            sched.cur_obj = sched.hot_frames.get(id(back))
                        sched.yield_point(tid, 'HX' if (sched.alias_bias or sched.hot_pending[tid])
                                          else 'X', back.f_lineno)
                    else:
                        sched.yield_point(tid, 'X', back.f_lineno)
            return None
        return glob

    def install_trace(self, tid):
        if self.trace:
            sys.settrace(self._tracers[tid])

    def remove_trace(self):
        sys.settrace(None)

    # ---------------------------------------------------------------- running tasks
    def run(self, bodies):
        """bodies: list of callables body(tid); returns when all have finished."""
        locks.ACTIVE = self
        locks.TASK_OF_THREAD.clear()
        locks.HELD.clear()
        if self.ntasks == 1:
            self.current = 0
            locks.TASK_OF_THREAD[_thread.get_ident()] = 0
            try:
                bodies[0](0)
            finally:
                self.remove_trace()
                self._close_segment(0, end=True)
                locks.ACTIVE = None
            return
        threads = []
        for tid, body in enumerate(bodies):
            th = threading.Thread(target=self._thread_main, args=(tid, body), name='simtask-%d' % tid,
                                  daemon=True)
            threads.append(th)
            th.start()
        first = self._pick_next(None)
        self.current = first
        self.sems[first].release()
        self.main_sem.acquire()
        locks.ACTIVE = None
        for th in threads:
            th.join(30.0)

    def _thread_main(self, tid, body):
        self.sems[tid].acquire()
        locks.TASK_OF_THREAD[_thread.get_ident()] = tid
        try:
            self.install_trace(tid)
            body(tid)
        except BaseException as e:  # noqa: BLE001 - harness problem, reported by the executor
            self.errors.append('task %d: %r' % (tid, e))
        finally:
            self.remove_trace()
            self._task_done(tid)

    def _task_done(self, tid):
        self._close_segment(tid, end=True)
        self.runnable.discard(tid)
        if self.mode == 'directed' and self.fired:
            nxt = None
            while self.drain_queue and nxt is None:
                t = self.drain_queue.pop(0)
                if t in self.runnable:
                    nxt = t
            if nxt is None and self.victim in self.runnable:
                nxt = self.victim
            if nxt is None and self.runnable:
                nxt = min(self.runnable)
            self.current = nxt
            if nxt is None:
                self.main_sem.release()
            else:
                self.sems[nxt].release()
            return
        if self.probe_runner == tid and self.return_to in self.runnable:
            back, self.return_to, self.probe_runner = self.return_to, None, None
            self.current = back
            self.sems[back].release()
            return
        if self.return_to == tid:
            self.return_to = self.probe_runner = None
        if self.mode in ('replay', 'directed') and self.seg_pos < len(self.segments_in) \
                and self.segments_in[self.seg_pos][0] == tid:
            self.seg_pos += 1
        if self.runnable:
            nxt = self._pick_next(None)
            self.current = nxt
            self.sems[nxt].release()
        else:
            self.current = None
            self.main_sem.release()

    def summary(self):
        return {
            'points': self.points, 'switches': self.switches, 'segments': self.segments,
            'digest': '%016x' % self.h, 'capped': self.capped, 'diverged': self.diverged,
            'kind_counts': dict(self.kind_counts),
            'probe_switch_in_dea3': self.probe_switch_in_dea3,
            'probe_switch_in_miss': self.probe_switch_in_miss,
            'hot_points': self.hot_points, 'probe_switches': self.probe_switches,
            'lock_blocks': self.lock_blocks, 'alias_hot_points': self.alias_hot_points,
            'alias_watch': self.alias, 'touches': self.touches, 'directed_fired': self.fired,
            'abort_fired': list(self.abort_fired), 'errors': list(self.errors),
        }
