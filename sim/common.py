"""Shared plumbing: environment pinning, library import, seeds, canonical records, fork isolation.

Nothing in this module ever *calls into* numdifftools; importing it (``import_library``) is the
only contact.  A process that has only imported the library is a "pristine parent": its library
state is exactly the state of a brand-new interpreter after ``import numdifftools``.
"""
from __future__ import annotations

import faulthandler
import hashlib
import json
import os
import pickle
import re
import select
import signal
import struct
import sys
import time
import traceback

VERIF_ROOT = os.path.dirname(os.path.dirname(os.path.abspath(__file__)))
SRC_ROOT = os.path.realpath(os.environ.get('VERIF_SRC') or '/repo/src')
LIB_ROOT = os.path.join(SRC_ROOT, 'numdifftools') + os.sep

PINNED_ENV = {
    'PYTHONHASHSEED': '0',
    'OPENBLAS_NUM_THREADS': '1',
    'OMP_NUM_THREADS': '1',
    'MKL_NUM_THREADS': '1',
    'PYTHONDONTWRITEBYTECODE': '1',
}


BLOB_LEN = 16384


def ensure_pinned_env(argv=None):
    """Re-exec once into a canonical process image.

    Hash seed and BLAS thread pools are pinned before numpy is imported, and - so that the heap at
    the point where the fork servers are created does not depend on how the check was invoked -
    the command line and every VERIF_* variable travel in ONE fixed-length environment string that
    is only unpacked (``restore_invocation``) after the fork servers exist.  Only VERIF_SRC and the
    hash seed are needed earlier and stay separate.
    """
    if os.environ.get('VERIF_PINNED') == '1':
        return
    argv = list(argv or sys.argv)
    blob = json.dumps({'argv': argv[1:],
                       'env': {k: v for k, v in os.environ.items() if k.startswith('VERIF_')}})
    if len(blob) > BLOB_LEN:
        raise SystemExit('command line too long for the canonical re-exec')
    env = {'PATH': os.environ.get('PATH', '/usr/bin:/bin'), 'HOME': os.environ.get('HOME', '/root'),
           'VERIF_PINNED': '1', 'VERIF_BLOB': blob.ljust(BLOB_LEN)}
    for k, v in PINNED_ENV.items():
        if k == 'PYTHONHASHSEED' and 'VERIF_HASHSEED' in os.environ:
            v = os.environ['VERIF_HASHSEED']
        env[k] = v
    if os.environ.get('VERIF_SRC'):
        env['VERIF_SRC'] = os.environ['VERIF_SRC']
    try:
        if os.environ.get('VERIF_KEEP_ASLR') == '1':     # self-test knob: behave as where the call fails
            raise OSError('personality not attempted')
        # no address-space randomisation in the new image: object addresses (hence id()-based
        # hashing, set orders and allocator reuse) become a repeatable function of the execution
        import ctypes
        libc = ctypes.CDLL(None, use_errno=True)
        cur = libc.personality(0xffffffff)
        if cur != -1:
            libc.personality(cur | 0x0040000)
    except Exception:  # noqa: BLE001 - best effort; replay then degrades to 'this process tree'
        pass
    os.execve(sys.executable, [sys.executable, '-B', argv[0]], env)


def restore_invocation():
    """Unpack the real command line / VERIF_* variables (called after the fork servers exist)."""
    blob = os.environ.pop('VERIF_BLOB', None)
    if blob is None:
        return
    doc = json.loads(blob)
    sys.argv[1:] = doc['argv']
    for k, v in doc['env'].items():
        os.environ[k] = v


_LIB = None


def import_library():
    """Import numdifftools from the working tree (never from an installed copy)."""
    global _LIB
    if _LIB is not None:
        return _LIB
    sys.dont_write_bytecode = True
    if SRC_ROOT not in sys.path:
        sys.path.insert(0, SRC_ROOT)
    import numpy  # noqa: F401
    import scipy.linalg  # noqa: F401
    import scipy.ndimage  # noqa: F401
    import scipy.special  # noqa: F401
    from . import locks
    # From here on threading.Lock / RLock create cooperative locks (sim/locks.py) in this process and
    # in everything forked from it: locks the library creates at import time, lazily during calls, or
    # in an os.register_at_fork hook all become yield points for simulated tasks, and behave exactly
    # like real locks for every other thread.
    locks.install()
    import numdifftools
    import numdifftools.limits, numdifftools.extrapolation, numdifftools.step_generators  # noqa
    import numdifftools.finite_difference  # noqa: F401
    here = os.path.realpath(numdifftools.__file__)
    if not here.startswith(LIB_ROOT):
        raise RuntimeError('numdifftools imported from %s, expected under %s' % (here, LIB_ROOT))
    _LIB = numdifftools
    return numdifftools


def source_hash():
    """blake2b over every .py file of the library tree (path + content)."""
    h = hashlib.blake2b(digest_size=16)
    base = LIB_ROOT
    for dirpath, dirnames, filenames in sorted(os.walk(base)):
        dirnames.sort()
        if '__pycache__' in dirpath:
            continue
        for fn in sorted(filenames):
            if fn.endswith('.py'):
                p = os.path.join(dirpath, fn)
                h.update(os.path.relpath(p, base).encode())
                with open(p, 'rb') as f:
                    h.update(f.read())
    return h.hexdigest()


# --------------------------------------------------------------------------- seeds

def derive_seed(*parts):
    """One integer decides everything: every sub-stream is a hash of (VERIF_SEED, labels...)."""
    h = hashlib.blake2b(digest_size=8)
    for p in parts:
        h.update(repr(p).encode())
        h.update(b'\0')
    return int.from_bytes(h.digest(), 'big')


def base_seed():
    try:
        return int(os.environ.get('VERIF_SEED', '0'))
    except ValueError:
        return derive_seed('str', os.environ.get('VERIF_SEED'))


# --------------------------------------------------------------------------- canonical records

_ADDR = re.compile(r'0x[0-9a-fA-F]+')


def canon(obj):
    """Canonical, picklable, comparable record of a library result (bit-for-bit, NaNs unified)."""
    import numpy as np
    if isinstance(obj, BaseException):
        return ('exc', type(obj).__name__, _ADDR.sub('0x?', str(obj)))
    if isinstance(obj, tuple):
        fields = getattr(obj, '_fields', None)
        return ('tuple', type(obj).__name__ if fields else 'tuple', tuple(canon(o) for o in obj))
    if isinstance(obj, list):
        return ('list', tuple(canon(o) for o in obj))
    if isinstance(obj, (np.ndarray, np.generic)):
        kind = 'nd' if isinstance(obj, np.ndarray) else 'sc'
        a = np.array(obj, copy=True)
        if a.dtype == object:
            return ('obj', kind, a.shape, tuple(canon(o) for o in a.ravel().tolist()))
        if a.dtype.kind == 'f':
            a[np.isnan(a)] = np.nan
        elif a.dtype.kind == 'c':
            re_, im_ = a.real.copy(), a.imag.copy()
            re_[np.isnan(re_)] = np.nan
            im_[np.isnan(im_)] = np.nan
            a = re_ + 0j
            a.imag = im_
        return ('arr', kind, a.dtype.str, a.shape, np.ascontiguousarray(a).tobytes())
    if isinstance(obj, float):
        if obj != obj:
            obj = float('nan')
        return ('float', struct.pack('<d', obj))
    if isinstance(obj, complex):
        return ('complex', repr(obj))
    if isinstance(obj, (int, bool, str, bytes)) or obj is None:
        return ('py', type(obj).__name__, obj)
    return ('repr', type(obj).__name__, _ADDR.sub('0x?', repr(obj)))


def describe(rec, limit=6):
    """Human readable rendering of a canonical record (for replay files)."""
    import numpy as np
    if rec is None:
        return None
    tag = rec[0]
    if tag == 'exc':
        return {'exception': rec[1], 'message': rec[2][:300]}
    if tag == 'tuple':
        return {'tuple:' + rec[1]: [describe(r, limit) for r in rec[2]]}
    if tag == 'list':
        return [describe(r, limit) for r in rec[1]]
    if tag == 'arr':
        a = np.frombuffer(rec[4], dtype=np.dtype(rec[2])).reshape(rec[3])
        flat = a.ravel()
        vals = [repr(v.item()) for v in flat[:limit]]
        return {'dtype': rec[2], 'shape': list(rec[3]), 'kind': rec[1], 'values': vals,
                'hex': rec[4][:8 * limit].hex()}
    if tag == 'float':
        return {'float': repr(struct.unpack('<d', rec[1])[0]), 'hex': rec[1].hex()}
    return repr(rec)[:300]


def first_difference(a, b, path=''):
    """Path of the first differing component of two canonical records ('' if equal)."""
    if a == b:
        return ''
    if (isinstance(a, tuple) and isinstance(b, tuple) and a and b and a[0] == b[0] == 'tuple'
            and a[1] == b[1] and len(a[2]) == len(b[2])):
        for i, (x, y) in enumerate(zip(a[2], b[2])):
            d = first_difference(x, y, path + '[%d]' % i)
            if d:
                return d
    if isinstance(a, tuple) and isinstance(b, tuple) and a and b:
        if a[0] != b[0]:
            return path + ':kind(%s!=%s)' % (a[0], b[0])
        if a[0] == 'arr':
            if a[2] != b[2]:
                return path + ':dtype'
            if a[3] != b[3]:
                return path + ':shape'
            return path + ':bits'
        if a[0] == 'exc':
            return path + (':exctype' if a[1] != b[1] else ':excmsg')
    return path + ':value'


def jkey(obj):
    """Canonical JSON string used as memo key / digest input."""
    return json.dumps(obj, sort_keys=True, separators=(',', ':'), default=_json_default)


def _json_default(o):
    import numpy as np
    if isinstance(o, np.generic):
        return o.item()
    if isinstance(o, np.ndarray):
        return o.tolist()
    if isinstance(o, (bytes, bytearray)):
        return o.hex()
    if isinstance(o, (set, frozenset)):
        return sorted(o)
    return repr(o)


def short_hash(obj):
    return hashlib.blake2b(jkey(obj).encode(), digest_size=8).hexdigest()


# --------------------------------------------------------------------------- fork isolation

class ForkError(Exception):
    """The child could not deliver a result (harness problem, never a property violation)."""


class ForkTimeout(ForkError):
    pass


def fork_call(fn, args=(), timeout=120.0, label='child'):
    """Run fn(*args) in a fork of the current process and return its (pickled) result.

    The caller is expected to be a pristine parent, so the child starts from fresh library state.
    """
    r, w = os.pipe()
    sys.stdout.flush()
    sys.stderr.flush()
    pid = os.fork()
    if pid == 0:
        code = 0
        try:
            os.close(r)
            signal.signal(signal.SIGTERM, signal.SIG_DFL)
            signal.signal(signal.SIGINT, signal.SIG_DFL)
            try:
                faulthandler.enable()
                faulthandler.dump_traceback_later(max(1.0, timeout - 1.0), exit=False)
            except Exception:
                pass
            try:
                res = ('ok', fn(*args))
            except BaseException as e:  # noqa: BLE001 - everything is reported to the parent
                res = ('err', '%s: %s' % (type(e).__name__, e), traceback.format_exc())
            try:
                data = pickle.dumps(res, protocol=pickle.HIGHEST_PROTOCOL)
            except BaseException as e:  # noqa: BLE001
                data = pickle.dumps(('err', 'unpicklable result: %r' % (e,), traceback.format_exc()))
            with os.fdopen(w, 'wb') as f:
                f.write(data)
        except BaseException:  # noqa: BLE001
            code = 3
        finally:
            os._exit(code)
    os.close(w)
    chunks = []
    deadline = time.monotonic() + timeout
    timed_out = False
    try:
        while True:
            left = deadline - time.monotonic()
            if left <= 0:
                timed_out = True
                break
            ready, _, _ = select.select([r], [], [], min(left, 1.0))
            if ready:
                b = os.read(r, 1 << 20)
                if not b:
                    break
                chunks.append(b)
    finally:
        os.close(r)
        if timed_out:
            try:
                os.kill(pid, signal.SIGKILL)
            except ProcessLookupError:
                pass
        try:
            _, status = os.waitpid(pid, 0)
        except ChildProcessError:
            status = 0
    if timed_out:
        raise ForkTimeout('%s timed out after %.0fs' % (label, timeout))
    data = b''.join(chunks)
    if not data:
        raise ForkError('%s died without a result (status %r)' % (label, status))
    res = pickle.loads(data)
    if res[0] == 'err':
        raise ForkError('%s failed: %s\n%s' % (label, res[1], res[2]))
    return res[1]


# --------------------------------------------------------------------------- zygote (fork server)

class Zygote(object):
    """A never-used copy of the interpreter that does nothing but fork children on request.

    Every run and every reference evaluation is a fork of this one process, whose heap is
    stationary (its loop allocates nothing that survives an iteration).  All children therefore
    start from a byte-identical heap, which makes even allocator-dependent behaviour of the code
    under test (address reuse after garbage collection, id()-keyed memos) a repeatable function of
    the plan.  Slots: one request/response pipe pair per client (0 = coordinator, 1.. = workers).
    """
    NSLOTS = 66
    NSERVERS = 4

    def __init__(self):
        self.req = [os.pipe() for _ in range(self.NSLOTS)]
        self.resp = [os.pipe() for _ in range(self.NSLOTS)]
        self.trig = [os.pipe() for _ in range(self.NSERVERS)]
        self.pids = [0] * self.NSERVERS
        sys.stdout.flush()
        sys.stderr.flush()
        # identical fork servers: nothing but the loop counter changes between these forks
        for k in range(self.NSERVERS):
            pid = os.fork()
            if pid == 0:
                try:
                    self._serve(k)
                finally:
                    os._exit(0)
            self.pids[k] = pid

    def _serve(self, k):
        signal.signal(signal.SIGCHLD, signal.SIG_IGN)      # children are reaped by the kernel
        signal.signal(signal.SIGINT, signal.SIG_IGN)
        trig = self.trig[k][0]
        for j in range(self.NSERVERS):
            os.close(self.trig[j][1])
        # warm-up: the first fork of a process runs lazy at-fork initialisations that leave
        # allocations behind; do them now so that every served child sees the same heap
        for _ in range(3):
            if os.fork() == 0:
                os._exit(0)
        # the serving loop must leave the heap exactly as it found it: the trigger byte is read
        # into a preallocated buffer (os.read would allocate a new bytes object per request and
        # make the free lists alternate between two states)
        buf = bytearray(1)
        bufs = [buf]
        while True:
            if os.readv(trig, bufs) == 0:
                return
            if os.fork() == 0:
                self._child(buf[0])

    def _child(self, slot):
        code = 0
        try:
            signal.signal(signal.SIGCHLD, signal.SIG_DFL)
            signal.signal(signal.SIGINT, signal.SIG_DFL)
            rfd = self.req[slot][0]
            wfd = self.resp[slot][1]
            (ln,) = struct.unpack('<Q', _read_exact(rfd, 8))
            timeout, fn, args = pickle.loads(_read_exact(rfd, ln))
            signal.alarm(max(1, int(timeout)))
            try:
                res = ('ok', fn(*args))
            except BaseException as e:  # noqa: BLE001
                res = ('err', '%s: %s' % (type(e).__name__, e), traceback.format_exc())
            try:
                data = pickle.dumps(res, protocol=pickle.HIGHEST_PROTOCOL)
            except BaseException as e:  # noqa: BLE001
                data = pickle.dumps(('err', 'unpicklable result: %r' % (e,), traceback.format_exc()))
            signal.alarm(0)
            _write_all(wfd, struct.pack('<Q', len(data)) + data)
        except BaseException:  # noqa: BLE001
            code = 3
        finally:
            os._exit(code)

    def call(self, slot, fn, args, timeout, label):
        payload = pickle.dumps((timeout, fn, args), protocol=pickle.HIGHEST_PROTOCOL)
        os.write(self.trig[slot % self.NSERVERS][1], bytes([slot]))
        _write_all(self.req[slot][1], struct.pack('<Q', len(payload)) + payload)
        rfd = self.resp[slot][0]
        deadline = time.monotonic() + timeout + 10.0
        head = _read_exact(rfd, 8, deadline)
        if head is None:
            raise ForkTimeout('%s timed out after %.0fs (or its process died)' % (label, timeout))
        (ln,) = struct.unpack('<Q', head)
        data = _read_exact(rfd, ln, deadline)
        if data is None:
            raise ForkTimeout('%s: truncated reply' % label)
        res = pickle.loads(data)
        if res[0] == 'err':
            raise ForkError('%s failed: %s\n%s' % (label, res[1], res[2]))
        return res[1]

    def shutdown(self):
        for pid in self.pids:
            try:
                os.kill(pid, signal.SIGKILL)
                os.waitpid(pid, 0)
            except (ProcessLookupError, ChildProcessError):
                pass


def _read_exact(fd, n, deadline=None):
    chunks, got = [], 0
    while got < n:
        if deadline is not None:
            left = deadline - time.monotonic()
            if left <= 0:
                return None
            ready, _, _ = select.select([fd], [], [], min(left, 2.0))
            if not ready:
                continue
        b = os.read(fd, min(n - got, 1 << 20))
        if not b:
            if deadline is None:
                raise EOFError('pipe closed')
            return None
        chunks.append(b)
        got += len(b)
    return b''.join(chunks)


def _write_all(fd, data):
    view = memoryview(data)
    while view:
        n = os.write(fd, view[:1 << 16])
        view = view[n:]


ZYGOTE = None
SLOT = 0


def start_zygote():
    global ZYGOTE
    if ZYGOTE is None and os.environ.get('VERIF_NO_ZYGOTE') != '1':
        ZYGOTE = Zygote()
        import atexit
        atexit.register(_stop_zygote, os.getpid())
    return ZYGOTE


def _stop_zygote(owner):
    if ZYGOTE is not None and os.getpid() == owner:
        ZYGOTE.shutdown()


def set_slot(slot):
    global SLOT
    SLOT = slot


def isolated_call(fn, args=(), timeout=120.0, label='child'):
    """Run fn(*args) in a process that starts from pristine library state (zygote fork if a
    zygote exists, else a fork of the caller)."""
    if ZYGOTE is not None:
        return ZYGOTE.call(SLOT, fn, args, timeout, label)
    return fork_call(fn, args, timeout, label)
