"""Shared plumbing: environment pinning, library import, seeds, canonical records, fork isolation.

Nothing in this module ever *calls into* numdifftools; importing it (``import_library``) is the
only contact.  A process that has only imported the library is a "pristine parent": its library
state is exactly the state of a brand-new interpreter after ``import numdifftools``.
"""
from __future__ import annotations

import faulthandler
import hashlib
import json
import os
import pickle
import re
import select
import signal
import struct
import sys
import time
import traceback

VERIF_ROOT = os.path.dirname(os.path.dirname(os.path.abspath(__file__)))
SRC_ROOT = os.path.realpath(os.environ.get('VERIF_SRC') or '/repo/src')
LIB_ROOT = os.path.join(SRC_ROOT, 'numdifftools') + os.sep

PINNED_ENV = {
    'PYTHONHASHSEED': '0',
    'OPENBLAS_NUM_THREADS': '1',
    'OMP_NUM_THREADS': '1',
    'MKL_NUM_THREADS': '1',
    'PYTHONDONTWRITEBYTECODE': '1',
}


def ensure_pinned_env(argv=None):
    """Re-exec once so hash seed and BLAS thread pools are pinned *before* numpy is imported."""
    if os.environ.get('VERIF_PINNED') == '1':
        return
    env = dict(os.environ)
    for k, v in PINNED_ENV.items():
        if k == 'PYTHONHASHSEED' and 'VERIF_HASHSEED' in env:
            v = env['VERIF_HASHSEED']
        env[k] = v
    env['VERIF_PINNED'] = '1'
    argv = argv or sys.argv
    os.execve(sys.executable, [sys.executable, '-B'] + argv, env)


_LIB = None


def import_library():
    """Import numdifftools from the working tree (never from an installed copy)."""
    global _LIB
    if _LIB is not None:
        return _LIB
    sys.dont_write_bytecode = True
    if SRC_ROOT not in sys.path:
        sys.path.insert(0, SRC_ROOT)
    import numpy  # noqa: F401
    import numdifftools
    here = os.path.realpath(numdifftools.__file__)
    if not here.startswith(LIB_ROOT):
        raise RuntimeError('numdifftools imported from %s, expected under %s' % (here, LIB_ROOT))
    _LIB = numdifftools
    return numdifftools


def source_hash():
    """blake2b over every .py file of the library tree (path + content)."""
    h = hashlib.blake2b(digest_size=16)
    base = LIB_ROOT
    for dirpath, dirnames, filenames in sorted(os.walk(base)):
        dirnames.sort()
        if '__pycache__' in dirpath:
            continue
        for fn in sorted(filenames):
            if fn.endswith('.py'):
                p = os.path.join(dirpath, fn)
                h.update(os.path.relpath(p, base).encode())
                with open(p, 'rb') as f:
                    h.update(f.read())
    return h.hexdigest()


# --------------------------------------------------------------------------- seeds

def derive_seed(*parts):
    """One integer decides everything: every sub-stream is a hash of (VERIF_SEED, labels...)."""
    h = hashlib.blake2b(digest_size=8)
    for p in parts:
        h.update(repr(p).encode())
        h.update(b'\0')
    return int.from_bytes(h.digest(), 'big')


def base_seed():
    try:
        return int(os.environ.get('VERIF_SEED', '0'))
    except ValueError:
        return derive_seed('str', os.environ.get('VERIF_SEED'))


# --------------------------------------------------------------------------- canonical records

_ADDR = re.compile(r'0x[0-9a-fA-F]+')


def canon(obj):
    """Canonical, picklable, comparable record of a library result (bit-for-bit, NaNs unified)."""
    import numpy as np
    if isinstance(obj, BaseException):
        return ('exc', type(obj).__name__, _ADDR.sub('0x?', str(obj)))
    if isinstance(obj, tuple):
        fields = getattr(obj, '_fields', None)
        return ('tuple', type(obj).__name__ if fields else 'tuple', tuple(canon(o) for o in obj))
    if isinstance(obj, list):
        return ('list', tuple(canon(o) for o in obj))
    if isinstance(obj, (np.ndarray, np.generic)):
        kind = 'nd' if isinstance(obj, np.ndarray) else 'sc'
        a = np.array(obj, copy=True)
        if a.dtype == object:
            return ('obj', kind, a.shape, tuple(canon(o) for o in a.ravel().tolist()))
        if a.dtype.kind == 'f':
            a[np.isnan(a)] = np.nan
        elif a.dtype.kind == 'c':
            re_, im_ = a.real.copy(), a.imag.copy()
            re_[np.isnan(re_)] = np.nan
            im_[np.isnan(im_)] = np.nan
            a = re_ + 0j
            a.imag = im_
        return ('arr', kind, a.dtype.str, a.shape, np.ascontiguousarray(a).tobytes())
    if isinstance(obj, float):
        if obj != obj:
            obj = float('nan')
        return ('float', struct.pack('<d', obj))
    if isinstance(obj, complex):
        return ('complex', repr(obj))
    if isinstance(obj, (int, bool, str, bytes)) or obj is None:
        return ('py', type(obj).__name__, obj)
    return ('repr', type(obj).__name__, _ADDR.sub('0x?', repr(obj)))


def describe(rec, limit=6):
    """Human readable rendering of a canonical record (for replay files)."""
    import numpy as np
    if rec is None:
        return None
    tag = rec[0]
    if tag == 'exc':
        return {'exception': rec[1], 'message': rec[2][:300]}
    if tag == 'tuple':
        return {'tuple:' + rec[1]: [describe(r, limit) for r in rec[2]]}
    if tag == 'list':
        return [describe(r, limit) for r in rec[1]]
    if tag == 'arr':
        a = np.frombuffer(rec[4], dtype=np.dtype(rec[2])).reshape(rec[3])
        flat = a.ravel()
        vals = [repr(v.item()) for v in flat[:limit]]
        return {'dtype': rec[2], 'shape': list(rec[3]), 'kind': rec[1], 'values': vals,
                'hex': rec[4][:8 * limit].hex()}
    if tag == 'float':
        return {'float': repr(struct.unpack('<d', rec[1])[0]), 'hex': rec[1].hex()}
    return repr(rec)[:300]


def first_difference(a, b, path=''):
    """Path of the first differing component of two canonical records ('' if equal)."""
    if a == b:
        return ''
    if (isinstance(a, tuple) and isinstance(b, tuple) and a and b and a[0] == b[0] == 'tuple'
            and a[1] == b[1] and len(a[2]) == len(b[2])):
        for i, (x, y) in enumerate(zip(a[2], b[2])):
            d = first_difference(x, y, path + '[%d]' % i)
            if d:
                return d
    if isinstance(a, tuple) and isinstance(b, tuple) and a and b:
        if a[0] != b[0]:
            return path + ':kind(%s!=%s)' % (a[0], b[0])
        if a[0] == 'arr':
            if a[2] != b[2]:
                return path + ':dtype'
            if a[3] != b[3]:
                return path + ':shape'
            return path + ':bits'
        if a[0] == 'exc':
            return path + (':exctype' if a[1] != b[1] else ':excmsg')
    return path + ':value'


def jkey(obj):
    """Canonical JSON string used as memo key / digest input."""
    return json.dumps(obj, sort_keys=True, separators=(',', ':'), default=_json_default)


def _json_default(o):
    import numpy as np
    if isinstance(o, np.generic):
        return o.item()
    if isinstance(o, np.ndarray):
        return o.tolist()
    if isinstance(o, (bytes, bytearray)):
        return o.hex()
    if isinstance(o, (set, frozenset)):
        return sorted(o)
    return repr(o)


def short_hash(obj):
    return hashlib.blake2b(jkey(obj).encode(), digest_size=8).hexdigest()


# --------------------------------------------------------------------------- fork isolation

class ForkError(Exception):
    """The child could not deliver a result (harness problem, never a property violation)."""


class ForkTimeout(ForkError):
    pass


def fork_call(fn, args=(), timeout=120.0, label='child'):
    """Run fn(*args) in a fork of the current process and return its (pickled) result.

    The caller is expected to be a pristine parent, so the child starts from fresh library state.
    """
    r, w = os.pipe()
    sys.stdout.flush()
    sys.stderr.flush()
    pid = os.fork()
    if pid == 0:
        code = 0
        try:
            os.close(r)
            signal.signal(signal.SIGTERM, signal.SIG_DFL)
            signal.signal(signal.SIGINT, signal.SIG_DFL)
            try:
                faulthandler.enable()
                faulthandler.dump_traceback_later(max(1.0, timeout - 1.0), exit=False)
            except Exception:
                pass
            try:
                res = ('ok', fn(*args))
            except BaseException as e:  # noqa: BLE001 - everything is reported to the parent
                res = ('err', '%s: %s' % (type(e).__name__, e), traceback.format_exc())
            try:
                data = pickle.dumps(res, protocol=pickle.HIGHEST_PROTOCOL)
            except BaseException as e:  # noqa: BLE001
                data = pickle.dumps(('err', 'unpicklable result: %r' % (e,), traceback.format_exc()))
            with os.fdopen(w, 'wb') as f:
                f.write(data)
        except BaseException:  # noqa: BLE001
            code = 3
        finally:
            os._exit(code)
    os.close(w)
    chunks = []
    deadline = time.monotonic() + timeout
    timed_out = False
    try:
        while True:
            left = deadline - time.monotonic()
            if left <= 0:
                timed_out = True
                break
            ready, _, _ = select.select([r], [], [], min(left, 1.0))
            if ready:
                b = os.read(r, 1 << 20)
                if not b:
                    break
                chunks.append(b)
    finally:
        os.close(r)
        if timed_out:
            try:
                os.kill(pid, signal.SIGKILL)
            except ProcessLookupError:
                pass
        try:
            _, status = os.waitpid(pid, 0)
        except ChildProcessError:
            status = 0
    if timed_out:
        raise ForkTimeout('%s timed out after %.0fs' % (label, timeout))
    data = b''.join(chunks)
    if not data:
        raise ForkError('%s died without a result (status %r)' % (label, status))
    res = pickle.loads(data)
    if res[0] == 'err':
        raise ForkError('%s failed: %s\n%s' % (label, res[1], res[2]))
    return res[1]
