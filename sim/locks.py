"""Cooperative stand-ins for threading.Lock / threading.RLock.

The baton scheduler parks every simulated thread but one.  If the library under test ever guards
shared state with a lock (a perfectly correct thing to do), a task that blocks inside a real
``lock.acquire()`` while the holder is parked would hang the simulation - an alarm on correct code.
So while the library is imported and while plans execute, ``threading.Lock`` and
``threading.RLock`` are replaced by wrappers around real locks whose *blocking* acquire, when made
by a simulated task, becomes a yield point: the scheduler runs somebody else until the lock is free.
Outside simulated tasks the wrappers behave exactly like the locks they wrap.  A state in which
every live task is blocked is a genuine deadlock of the code under test and is raised as
``DeadlockDetected`` in the blocked task (it then shows up as a difference from the reference).
"""
from __future__ import annotations

import _thread
import threading
import time

_REAL_LOCK = _thread.allocate_lock
_REAL_RLOCK = threading._CRLock or threading._PyRLock  # type: ignore[attr-defined]
_ORIG = (threading.Lock, threading.RLock)

ACTIVE = None          # the Scheduler of the run in progress (set by the executor), else None
TASK_OF_THREAD = {}    # thread ident -> task id, for the run in progress
HELD = {}              # task id -> number of cooperative locks currently held (abort faults wait)


def _note(delta):
    tid = TASK_OF_THREAD.get(_thread.get_ident())
    if tid is not None:
        HELD[tid] = HELD.get(tid, 0) + delta


class DeadlockDetected(Exception):
    """Every live simulated task is blocked on a lock of the code under test."""


def _coop_acquire(real, blocking, timeout):
    sched = ACTIVE
    if sched is None or not blocking:
        return None
    tid = TASK_OF_THREAD.get(_thread.get_ident())
    if tid is None:
        return None
    deadline = None if timeout is None or timeout < 0 else time.monotonic() + timeout
    while not real.acquire(False):
        if deadline is not None and time.monotonic() >= deadline:
            return False
        sched.yield_blocked(tid)
    return True


class SimLock(object):
    def __init__(self):
        self._real = _REAL_LOCK()

    def acquire(self, blocking=True, timeout=-1):
        r = _coop_acquire(self._real, blocking, timeout)
        if r is None:
            r = self._real.acquire(blocking, timeout)
        if r and ACTIVE is not None:
            _note(+1)
        return r

    def release(self):
        self._real.release()
        sched = ACTIVE
        if sched is not None:
            _note(-1)
            sched.note_unblock()

    __enter__ = acquire

    def __exit__(self, *a):
        self.release()

    def locked(self):
        return self._real.locked()

    def _at_fork_reinit(self):
        self._real._at_fork_reinit()

    def __getattr__(self, name):
        return getattr(self._real, name)


class SimRLock(object):
    def __init__(self):
        self._real = _REAL_RLOCK()

    def acquire(self, blocking=True, timeout=-1):
        r = _coop_acquire(self._real, blocking, timeout)
        if r is None:
            r = self._real.acquire(blocking, timeout)
        if r and ACTIVE is not None:
            _note(+1)
        return r

    def release(self):
        self._real.release()
        sched = ACTIVE
        if sched is not None:
            _note(-1)
            sched.note_unblock()

    __enter__ = acquire

    def __exit__(self, *a):
        self.release()

    def __getattr__(self, name):        # _is_owned, _release_save, _acquire_restore, ...
        return getattr(self._real, name)


def install():
    threading.Lock = SimLock
    threading.RLock = SimRLock


def uninstall():
    threading.Lock, threading.RLock = _ORIG
