"""./check <property> [--tier quick|thorough] [--replay FILE] ...   (see DESIGN.md section 3)

exit 0  property held on everything explored (KNOWN-FINDING lines allowed)
exit 1  VIOLATION property=<id> replay=<path>
exit 2  HARNESS-ERROR (non-determinism, time-out, internal error) - never dressed up as a pass
"""
from __future__ import annotations

import argparse
import hashlib
import json
import os
import subprocess
import sys
import time

HERE = os.path.dirname(os.path.abspath(__file__))
ROOT = os.path.dirname(HERE)
sys.path.insert(0, ROOT)

from sim.common import (ensure_pinned_env, base_seed, import_library, source_hash,  # noqa: E402
                        derive_seed, describe, isolated_call, jkey, ForkError, SRC_ROOT,
                        start_zygote, restore_invocation)

from sim.driver import execute_isolated  # noqa: E402

TIER_BUDGET = {'quick': 60.0, 'thorough': 900.0}


def load_prop(pid):
    if pid == 'C09':
        from checks import c09
        return c09
    if pid == 'C14':
        from checks import c14
        return c14
    raise SystemExit('unknown property %r' % pid)


def known_findings(pid):
    path = os.path.join(ROOT, 'known_findings.json')
    try:
        with open(path) as f:
            data = json.load(f)
    except FileNotFoundError:
        return []
    return [e for e in data.get('findings', []) if e.get('property') == pid
            and e.get('status', 'open') == 'open']


# ------------------------------------------------------------------------------ run digests

def run_digest(prop, mode, base, idx):
    """Digest of one run (event log + schedule + every observation); executed in a fork."""
    seed = derive_seed(base, prop.ID, mode, idx)
    plan = prop.generate(seed, mode)
    res = execute_isolated(prop, plan, None, timeout=120, label='digest run')
    h = hashlib.blake2b(digest_size=12)
    h.update(jkey(plan).encode())
    h.update(repr(res['sched']['digest']).encode())
    h.update(repr(res['sched']['segments']).encode())
    h.update(repr([(o.get('task'), o.get('idx'), o.get('rec'), o.get('faulted'), o.get('skipped'))
                   for o in res['obs']]).encode())
    h.update(repr(sorted(res.get('faults', {}).items())).encode())
    if len(plan['tasks']) > 1:
        # the second (conflict-directed) stage is part of what must be repeatable
        from sim.driver import directed_specs
        specs = directed_specs(res, seed)
        h.update(repr([(sp['victim'], sp['at'], sp['drain'], sp.get('hold')) for sp in specs]).encode())
        if specs:
            r2 = execute_isolated(prop, plan, specs[0], timeout=120, label='digest directed run')
            h.update(repr((r2['sched']['digest'], r2['sched']['segments'], r2['sched']['directed_fired'],
                           [(o.get('idx'), o.get('rec')) for o in r2['obs']])).encode())
    # logical digest + fingerprint of the allocator state the run started from / ended in
    return h.hexdigest() + ':' + hashlib.blake2b(repr(res.get('heap_canary')).encode(),
                                                 digest_size=4).hexdigest()


def digests_cmd(prop, base, spec):
    """spec: mode:start:count[,mode:start:count...] -> prints JSON {"mode:idx": digest}."""
    out = {}
    for part in spec.split(','):
        mode, start, count = part.split(':')
        for i in range(int(start), int(start) + int(count)):
            out['%s:%d' % (mode, i)] = run_digest(prop, mode, base, i)
    return out


def determinism_selftest(prop, base, modes, count, jobs_alt=3):
    """Every sampled run is executed three times: twice here (two separate forks) and once in a
    brand-new interpreter with another PYTHONHASHSEED; all digests must agree."""
    t0 = time.monotonic()
    spec = ','.join('%s:0:%d' % (m, count) for m in modes)
    rspec = ','.join('%s:%d:1' % (m, i) for m in reversed(modes) for i in reversed(range(count)))
    a = digests_cmd(prop, base, spec)
    b = digests_cmd(prop, base, rspec)          # same runs, requested in the opposite order
    env = dict(os.environ)
    env.pop('VERIF_PINNED', None)
    env['VERIF_SEED'] = str(base)
    env['VERIF_JOBS'] = str(jobs_alt)

    def fresh(hashseed):
        e = dict(env)
        if hashseed is not None:
            e['VERIF_HASHSEED'] = str(hashseed)
        else:
            e.pop('VERIF_HASHSEED', None)
        p = subprocess.run([sys.executable, '-B', os.path.join(HERE, 'main.py'), prop.ID,
                            '--digests', spec], env=e, capture_output=True, text=True, timeout=900)
        if p.returncode != 0:
            raise RuntimeError('digest subprocess failed: ' + p.stderr[-2000:])
        return json.loads(p.stdout.strip().splitlines()[-1])

    try:
        c = fresh(4242)                         # brand-new interpreter, another hash seed
        d = fresh(None)                         # brand-new interpreter, same hash seed
    except RuntimeError as e:
        return {'ok': False, 'error': str(e)}

    def logical(x):
        return x.split(':')[0] if isinstance(x, str) else x

    bad = sorted(k for k in a if not (logical(a[k]) == logical(b.get(k)) == logical(c.get(k))
                                      == logical(d.get(k))))
    heap_same_tree = sum(1 for k in a if a[k] == b.get(k))
    heap_other_interp = sum(1 for k in a if a[k] == d.get(k))
    return {'ok': not bad, 'runs': len(a), 'executions': 4 * len(a), 'mismatching': bad[:10],
            'other_hashseed': 4242,
            'allocator_fingerprint_equal_when_requested_in_reverse_order': '%d/%d' % (heap_same_tree, len(a)),
            'allocator_fingerprint_equal_in_brand_new_interpreter': '%d/%d' % (heap_other_interp, len(a)),
            'wall_s': round(time.monotonic() - t0, 2)}


# ------------------------------------------------------------------------------ violations

def minimise(prop, viol, budget_s):
    """Shrink the failing plan; returns (plan, schedule_segments, violation, tries)."""
    from sim.shrink import shrink, shrink_schedule
    refs = prop.make_refs()
    klass = prop.violation_class(viol)

    base_sched = None
    if viol.get('via') == 'directed' and viol.get('sched_spec'):
        # re-execute through exactly the code path that found it (a 'replay' of the recorded segments
        # runs different scheduler code in the child, which matters for allocator-dependent bugs)
        base_sched = viol['sched_spec']

    def check(plan, sched_spec=None):
        if sched_spec is None:
            sched_spec = base_sched
        try:
            res = execute_isolated(prop, plan, sched_spec, timeout=120, label='shrink run')
            vs, _ = prop.judge(plan, res, refs)
        except ForkError:
            return None, None
        for v in vs:
            if prop.violation_class(v) == klass:
                return v, res
        return None, None

    plan = viol['plan']
    v0, res0 = check(plan)
    if v0 is None:
        return None
    small, tries = shrink(plan, lambda p: check(p)[0] is not None, budget_s=budget_s * 0.7,
                          simplifiers=(prop.simplify_op,))
    v1, res1 = check(small)
    if v1 is None:           # cannot happen with a deterministic harness
        small, v1, res1 = plan, v0, res0
    segments = res1['sched']['segments']
    spec_used = base_sched if (base_sched and len(small['tasks']) > 1) else None
    if len(small['tasks']) > 1:
        def fails_sched(p, segs):
            v, _ = check(p, {'mode': 'replay', 'segments': segs})
            return v is not None
        better = shrink_schedule(small, segments, fails_sched, budget_s=budget_s * 0.3)
        if better is not None:
            segments = better
            spec_used = None
            v2, _ = check(small, {'mode': 'replay', 'segments': segments})
            if v2 is not None:
                v1 = v2
        elif spec_used is None:
            segments = None   # recorded segments did not reproduce; replay re-explores by seed
    if spec_used is not None:
        v1 = dict(v1, schedule_spec=spec_used)
    return small, segments, v1, tries


def write_replay(prop, viol, small, segments, vmin, tries, base, tier):
    os.makedirs(os.path.join(ROOT, 'replays'), exist_ok=True)
    path = os.path.join(ROOT, 'replays', '%s-%s-%d.json' % (prop.ID, viol['mode'], viol['run_index']))
    doc = {
        'property': prop.ID, 'verif_seed': base, 'tier': tier, 'mode': viol['mode'],
        'run_index': viol['run_index'], 'run_seed': viol['seed'],
        'violation': {k: vmin[k] for k in ('kind', 'cls', 'task', 'idx', 'diff') if k in vmin},
        'detail': vmin.get('detail'),
        'observed': describe(vmin.get('observed')), 'reference': describe(vmin.get('reference')),
        'reference_plan': vmin.get('reference_plan'),
        'reference_request': vmin.get('reference_request', vmin.get('reference_plan')),
        'plan': small, 'schedule': segments, 'schedule_spec': vmin.get('schedule_spec'),
        'original_ops': sum(len(t['ops']) for t in viol['plan']['tasks']),
        'minimised_ops': sum(len(t['ops']) for t in small['tasks']),
        'shrink_tries': tries, 'source_hash': source_hash(), 'src_root': SRC_ROOT,
        'replay_cmd': './check %s --replay %s' % (prop.ID, os.path.relpath(path, ROOT)),
    }
    with open(path, 'w') as f:
        json.dump(doc, f, indent=1, default=repr)
    return path


def replay_file(prop, path, quiet=False):
    """Re-executes a replay file.  Never consults a PRNG when a schedule is recorded."""
    with open(path) as f:
        doc = json.load(f)
    plan = doc['plan']
    sched = None
    if doc.get('schedule_spec') and len(plan['tasks']) > 1:
        sched = doc['schedule_spec']        # a directed schedule: base segments + victim window
    elif doc.get('schedule') and len(plan['tasks']) > 1:
        sched = {'mode': 'replay', 'segments': doc['schedule']}
    refs = prop.make_refs()
    res = execute_isolated(prop, plan, sched, timeout=300, label='replay')
    vs, _ = prop.judge(plan, res, refs)
    want = (doc['violation'].get('kind'), doc['violation'].get('cls'))
    for v in vs:
        if prop.violation_class(v) == want:
            if not quiet:
                print('reproduced: %s %s at task %s op %s (%s)' % (v['kind'], v['cls'], v.get('task'),
                                                                   v.get('idx'), v.get('diff')))
                print('observed :', json.dumps(describe(v.get('observed')), default=repr)[:600])
                print('reference:', json.dumps(describe(v.get('reference')), default=repr)[:600])
            return v
    return None


def _fresh(prop, extra, hashseed=None, timeout=900):
    env = dict(os.environ)
    env.pop('VERIF_PINNED', None)
    if hashseed is not None:
        env['VERIF_HASHSEED'] = str(hashseed)
    return subprocess.run([sys.executable, '-B', os.path.join(HERE, 'main.py'), prop.ID] + extra,
                          env=env, capture_output=True, text=True, timeout=timeout)


def ref_hash(prop, request):
    from sim.common import short_hash
    return short_hash(repr(prop.make_refs().get(request)))


def confirm_violation(prop, path):
    """(confirmed, scope, log).  A violation is confirmed when the replay file reproduces in a
    brand-new interpreter; failing that (behaviour that depends on allocator state, e.g. an
    id()-keyed memo, replays only inside one process tree) when it reproduces from three different
    fork servers here AND its fresh-state reference is identical in a brand-new interpreter."""
    p = _fresh(prop, ['--replay', path, '--quiet'])
    if p.returncode == 1:
        p2 = _fresh(prop, ['--replay', path, '--quiet'], hashseed=977)
        scope = 'any interpreter' if p2.returncode == 1 else 'any interpreter with PYTHONHASHSEED=0'
        return True, scope, ''
    from sim.common import set_slot
    ok = True
    for slot in (0, 1, 2):
        set_slot(slot)
        if replay_file(prop, path, quiet=True) is None:
            ok = False
    set_slot(0)
    with open(path) as f:
        doc = json.load(f)
    req = doc.get('reference_request')
    if ok and req is not None:
        here = ref_hash(prop, req)
        p3 = _fresh(prop, ['--refhash', path], hashseed=977)
        there = p3.stdout.strip().splitlines()[-1] if p3.returncode == 0 and p3.stdout.strip() else None
        if here == there:
            return True, 'this process tree only (depends on allocator state)', ''
        return False, None, 'reference differs between interpreters: %s vs %s' % (here, there)
    return False, None, (p.stdout + p.stderr)[-1500:]


# ------------------------------------------------------------------------------ main

def main(argv=None):
    # the zygote is created at a fixed point of start-up, before anything depends on the arguments
    import_library()
    from checks import c09, c14  # noqa: F401
    from sim.sched import hotlines
    hotlines()                     # static analysis only; inherited by every run through the zygote
    start_zygote()
    restore_invocation()
    ap = argparse.ArgumentParser()
    ap.add_argument('property')
    ap.add_argument('--tier', default=os.environ.get('VERIF_TIER') or 'quick',
                    choices=['quick', 'thorough'])
    ap.add_argument('--budget', type=float, default=None)
    ap.add_argument('--replay')
    ap.add_argument('--quiet', action='store_true')
    ap.add_argument('--digests')
    ap.add_argument('--refhash')
    ap.add_argument('--refbatch')
    ap.add_argument('--max-runs', type=int, default=10 ** 9)
    ap.add_argument('--modes', default=None)
    ap.add_argument('--no-evidence', action='store_true')
    args = ap.parse_args(argv)

    prop = load_prop(args.property)
    prop.assert_pristine()
    base = base_seed()

    if args.digests:
        print(json.dumps(digests_cmd(prop, base, args.digests)))
        return 0
    if args.refhash:
        with open(args.refhash) as f:
            print(ref_hash(prop, json.load(f)['reference_request']))
        return 0
    if args.refbatch:
        with open(args.refbatch) as f:
            reqs = json.load(f)
        print(json.dumps([ref_hash(prop, r) for r in reqs]))
        return 0
    if args.replay:
        v = replay_file(prop, args.replay, quiet=args.quiet)
        if v is None:
            print('NOT-REPRODUCED property=%s replay=%s' % (prop.ID, args.replay))
            return 0
        print('VIOLATION property=%s replay=%s' % (prop.ID, args.replay))
        return 1

    tier = args.tier
    os.environ['VERIF_TIER_EFFECTIVE'] = tier
    budget = args.budget or float(os.environ.get('VERIF_BUDGET_S') or TIER_BUDGET[tier])
    try:        # replay files of earlier runs of this property are stale now
        for fn in os.listdir(os.path.join(ROOT, 'replays')):
            if fn.startswith(prop.ID + '-') and fn.endswith('.json'):
                os.unlink(os.path.join(ROOT, 'replays', fn))
    except OSError:
        pass
    print('# %s tier=%s seed=%d budget=%.0fs src=%s' % (prop.ID, tier, base, budget, SRC_ROOT))
    sys.stdout.flush()
    t_start = time.monotonic()
    from sim.driver import explore
    phases = prop.phases(tier)
    if args.modes:
        phases = [(m, w) for m, w in phases if m in args.modes.split(',')]
    wsum = sum(w for _, w in phases)
    by_mode, all_viols, all_errors = {}, [], []
    for mode, w in phases:
        stats, viols, errors, wall = explore(prop, mode, base, budget * w / wsum,
                                             max_runs=args.max_runs)
        stats['wall_s'] = wall
        by_mode[mode] = stats
        all_viols.extend(viols)
        all_errors.extend(errors)
        print('# phase %-4s runs=%d compared=%d violations=%d errors=%d wall=%.1fs' % (
            mode, stats.get('runs', 0), stats.get('compared', 0), len(viols), len(errors), wall))
        sys.stdout.flush()
        if viols and prop.stop_on_violation(viols):
            break

    det = None
    if not all_viols:
        det = determinism_selftest(prop, base, [m for m, _ in phases],
                                   prop.determinism_count(tier))
        print('# determinism self-test: %s' % json.dumps(det))
        if not det['ok']:
            all_errors.append({'kind': 'nondeterminism', 'msg': json.dumps(det)})

    # ---- thorough: a sample of the fork-server references is re-evaluated in a brand-new
    # interpreter under another hash seed and must agree bit-for-bit
    refcheck = None
    if tier == 'thorough' and not all_viols:
        reqs = []
        for st in by_mode.values():
            reqs.extend(st.get('refsample', [])[:32])
        if reqs:
            import tempfile
            with tempfile.NamedTemporaryFile('w', suffix='.json', delete=False) as tf:
                json.dump(reqs, tf)
            try:
                pr = _fresh(prop, ['--refbatch', tf.name], hashseed=2718)
                here = [ref_hash(prop, r) for r in reqs]
                there = json.loads(pr.stdout.strip().splitlines()[-1]) if pr.returncode == 0 else None
                refcheck = {'references_rechecked_in_fresh_interpreter': len(reqs),
                            'agree': here == there}
                if here != there:
                    all_errors.append({'kind': 'nondeterminism',
                                       'msg': 'fork-server references differ from a fresh interpreter'})
            finally:
                os.unlink(tf.name)
        print('# fresh-interpreter reference cross-check: %s' % json.dumps(refcheck))

    # ---- classify violations: known findings vs new ones
    kf = known_findings(prop.ID)
    new_viols, known_hits = [], {}
    for v in all_viols:
        hit = prop.match_known(v, kf) if kf else None
        if hit:
            known_hits.setdefault(hit['id'], (hit, v))
        else:
            new_viols.append(v)
    for hit, v in known_hits.values():
        print('KNOWN-FINDING: property=%s %s' % (prop.ID, hit['summary']))

    exit_code = 0
    replay_path = None
    if new_viols:
        v = new_viols[0]
        res = minimise(prop, v, 60.0 if tier == 'quick' else 300.0)
        if res is None:
            all_errors.append({'kind': 'nondeterminism',
                               'msg': 'violation at %s/%d did not reproduce when re-executed'
                                      % (v['mode'], v['run_index'])})
        else:
            small, segments, vmin, tries = res
            replay_path = write_replay(prop, v, small, segments, vmin, tries, base, tier)
            ok, scope, out = confirm_violation(prop, replay_path)
            if ok:
                with open(replay_path) as f:
                    doc = json.load(f)
                doc['replay_scope'] = scope
                with open(replay_path, 'w') as f:
                    json.dump(doc, f, indent=1, default=repr)
                print('VIOLATION property=%s replay=%s' % (prop.ID, replay_path))
                print('# replay scope: %s' % scope)
                print('# %s %s: %s' % (vmin['kind'], vmin['cls'], vmin.get('diff')))
                exit_code = 1
            else:
                all_errors.append({'kind': 'nondeterminism',
                                   'msg': 'replay file did not reproduce in a fresh interpreter: ' + out})
    if all_errors and exit_code == 0:
        for e in all_errors[:5]:
            print('HARNESS-ERROR property=%s kind=%s %s' % (prop.ID, e.get('kind'),
                                                            str(e.get('msg'))[:1500]))
        exit_code = 2

    wall = time.monotonic() - t_start
    if not args.no_evidence:
        ev = prop.evidence(tier, base, by_mode, det, len(new_viols), sorted(known_hits),
                           all_errors, wall)
        ev['coverage']['fresh_interpreter_reference_crosscheck'] = refcheck
        os.makedirs(os.path.join(ROOT, 'evidence'), exist_ok=True)
        with open(os.path.join(ROOT, 'evidence', prop.ID + '.json'), 'w') as f:
            json.dump(ev, f, indent=1, default=repr)
    print('# %s done: exit=%d wall=%.1fs' % (prop.ID, exit_code, wall))
    return exit_code


if __name__ == '__main__':
    ensure_pinned_env()
    sys.exit(main())
