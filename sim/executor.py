"""Executes a C09 plan (or a reference mini-plan) against the real library under the scheduler.

Runs inside a fork of a pristine parent.  Everything observable is returned as canonical records.
"""
from __future__ import annotations

import gc
import sys

import numpy as np

from . import funpool
from .common import canon, import_library
from .sched import AbortInjected, Scheduler, SimInterrupt

EXC_KINDS = {
    'ValueError': ValueError,
    'FloatingPointError': FloatingPointError,
    'ZeroDivisionError': ZeroDivisionError,
    'SimInterrupt': SimInterrupt,
}


def make_x(spec):
    """Build a *fresh* argument from its JSON spec (every call gets a private copy)."""
    t = spec['t']
    if t == 'float':
        return float(spec['v'])
    if t == 'int':
        return int(spec['v'])
    if t == 'list':
        return [float(v) if isinstance(v, float) else v for v in spec['v']]
    if t == 'arr':
        a = np.array(spec['v'], dtype=spec.get('dtype', 'float64'))
        return a.reshape(spec.get('shape', a.shape)).copy()
    raise ValueError('bad x spec %r' % (spec,))


class CacheSeam(dict):
    """dict subclass standing in for finite_difference.FD_RULES: every access is a yield point."""

    def __init__(self, ex):
        dict.__init__(self)
        self._ex = ex
        self.stats = {'get': 0, 'hit': 0, 'miss': 0, 'set': 0, 'clear': 0, 'del': 0, 'other': 0}

    def _tid(self):
        cur = self._ex.sched.current
        return 0 if cur is None else cur

    def get(self, key, default=None):
        ex, tid = self._ex, self._tid()
        ex.sched.yield_point(tid, 'Cg')
        self.stats['get'] += 1
        val = dict.get(self, key, default)
        if val is None:
            self.stats['miss'] += 1
            ex.sched.in_miss[tid] = True
            ex.sched.note_conflict(tid, 'm', key)
            ex.sched.cur_obj = ('cache', repr(key))
            ex.sched.yield_point(tid, 'Cm')
        else:
            self.stats['hit'] += 1
            ex.sched.note_conflict(tid, 'h', key)
            ex.sched.cur_obj = ('cache', repr(key))
            ex.sched.yield_point(tid, 'Ch')
        return val

    def __getitem__(self, key):
        ex, tid = self._ex, self._tid()
        ex.sched.yield_point(tid, 'Cg')
        self.stats['get'] += 1
        try:
            val = dict.__getitem__(self, key)
        except KeyError:
            self.stats['miss'] += 1
            ex.sched.in_miss[tid] = True
            ex.sched.note_conflict(tid, 'm', key)
            ex.sched.yield_point(tid, 'Cm')
            raise
        self.stats['hit'] += 1
        ex.sched.note_conflict(tid, 'h', key)
        ex.sched.yield_point(tid, 'Ch')
        return val

    def __contains__(self, key):
        ex, tid = self._ex, self._tid()
        ex.sched.yield_point(tid, 'Cg')
        self.stats['get'] += 1
        r = dict.__contains__(self, key)
        if r:
            self.stats['hit'] += 1
            ex.sched.note_conflict(tid, 'h', key)
            ex.sched.yield_point(tid, 'Ch')
        else:
            self.stats['miss'] += 1
            ex.sched.in_miss[tid] = True
            ex.sched.note_conflict(tid, 'm', key)
            ex.sched.yield_point(tid, 'Cm')
        return r

    def __setitem__(self, key, value):
        ex, tid = self._ex, self._tid()
        ex.sched.cur_obj = ('cache', repr(key))
        ex.sched.yield_point(tid, 'Cs')
        self.stats['set'] += 1
        dict.__setitem__(self, key, value)
        ex.sched.in_miss[tid] = False
        ex.sched.note_conflict(tid, 's', key)
        ex.sched.cur_obj = ('cache', repr(key))
        ex.sched.yield_point(tid, 'Cs')

    def setdefault(self, key, default=None):
        ex, tid = self._ex, self._tid()
        ex.sched.yield_point(tid, 'Cs')
        self.stats['set'] += 1
        r = dict.setdefault(self, key, default)
        ex.sched.in_miss[tid] = False
        ex.sched.note_conflict(tid, 's', key)
        ex.sched.yield_point(tid, 'Cs')
        return r

    def __delitem__(self, key):
        ex, tid = self._ex, self._tid()
        ex.sched.yield_point(tid, 'Cx')
        self.stats['del'] += 1
        dict.__delitem__(self, key)
        ex.sched.note_conflict(tid, 'x', key)

    def pop(self, key, *default):
        ex, tid = self._ex, self._tid()
        ex.sched.yield_point(tid, 'Cx')
        self.stats['del'] += 1
        ex.sched.note_conflict(tid, 'x', key)
        return dict.pop(self, key, *default)

    def clear(self):
        ex, tid = self._ex, self._tid()
        ex.sched.yield_point(tid, 'Cx')
        self.stats['clear'] += 1
        ex.sched.note_conflict(tid, 'x', '*')
        dict.clear(self)

    def update(self, *a, **k):
        ex, tid = self._ex, self._tid()
        ex.sched.yield_point(tid, 'Cs')
        self.stats['other'] += 1
        ex.sched.note_conflict(tid, 's', '*')
        dict.update(self, *a, **k)


class CallCtx(object):
    __slots__ = ('nevals', 'fault', 'fired', 'active', 'trace')

    def __init__(self):
        self.nevals = 0
        self.fault = None
        self.fired = False
        self.active = False
        self.trace = None


class Executor(object):
    def __init__(self, plan, sched_spec=None, light=False):
        self.plan = plan
        self.light = light            # reference mini-plans: no seam, no tracing, no digests
        self.nd = import_library()
        from numdifftools import finite_difference, limits, step_generators
        self.fd = finite_difference
        self.limits = limits
        self.sg = step_generators
        ntasks = len(plan['tasks'])
        trace = bool(plan.get('trace', ntasks > 1)) and not light
        self.sched = Scheduler(ntasks, sched_spec if sched_spec is not None else plan.get('sched'),
                               trace=trace)
        self.trace_all = trace
        self.gens = {}
        self.objs = {}
        self.ctx = [CallCtx() for _ in range(ntasks)]
        self.obs = []
        self.states = set()
        self.fault_counts = {}
        self.cache_seam_ok = False
        self.seam = None
        if not light:
            self._install_cache_seam()

    # ------------------------------------------------------------------ seams
    def _install_cache_seam(self):
        cur = getattr(self.fd, 'FD_RULES', None)
        if isinstance(cur, dict) and not isinstance(cur, CacheSeam):
            seam = CacheSeam(self)
            dict.update(seam, cur)
            self.fd.FD_RULES = seam
            self.seam = seam
            self.cache_seam_ok = True

    def _count(self, name, k=1):
        self.fault_counts[name] = self.fault_counts.get(name, 0) + k

    def _wrap_fun(self, tid, spec):
        """The f seam: every evaluation is a yield point and a possible fault site."""
        ex = self
        name = spec['name']
        if name == 'nested':
            inner = ex.objs[spec['inner']]       # bound now: a later drop of the name is harmless
            post = funpool.ALL[spec['post']] if spec.get('post') else None

            def base(x, *a, **k):
                r = inner(x, *a, **k)
                if isinstance(r, tuple):
                    r = r[0]
                return post(r) if post is not None else r
        else:
            base = funpool.ALL[name]
        ctx = self.ctx[tid]
        sched = self.sched

        def wrapped(x, *a, **k):
            sched.yield_point(tid, 'F')
            ctx.nevals += 1
            flt = ctx.fault
            if flt is not None and ctx.active and flt['kind'] == 'f_raise' \
                    and ctx.nevals == flt['at']:
                ctx.fired = True
                raise EXC_KINDS[flt['exc']]('injected failure of f at evaluation %d' % ctx.nevals)
            if ctx.trace is not None and len(ctx.trace) < 64:
                try:
                    ctx.trace.append(canon(np.asarray(x)))
                except Exception:  # noqa: BLE001 - diagnostic only
                    pass
            r = base(x, *a, **k)
            sched.yield_point(tid, 'R')
            return r
        return wrapped

    # ------------------------------------------------------------------ ops
    def _state_digest(self):
        if self.light:
            return
        try:
            keys = sorted(dict.keys(self.fd.FD_RULES)) if isinstance(self.fd.FD_RULES, dict) else []
        except Exception:  # noqa: BLE001
            keys = []
        objs = []
        for name, o in sorted(self.objs.items()):
            try:
                objs.append((type(o).__name__, o.n, o.order, o.method))
            except Exception:  # noqa: BLE001
                objs.append((type(o).__name__,))
        gens = []
        for name, g in sorted(self.gens.items()):
            st = getattr(g, '_state', None)
            if st is not None:
                gens.append((np.shape(st[0]), st[1], st[2], st[3]))
        import hashlib
        self.states.add(hashlib.blake2b(repr((keys, objs, gens)).encode(), digest_size=8).hexdigest())

    def _resolve_step(self, step):
        if isinstance(step, dict):
            return self.gens[step['gen']]
        if isinstance(step, list):
            return np.array(step, dtype=float)
        return step

    def op_newgen(self, tid, op):
        kind = op['kind']
        if kind == 'one_step' and hasattr(self.sg, 'one_step'):
            self.gens[op['g']] = self.sg.one_step
        else:
            cls = {'Min': self.sg.MinStepGenerator, 'Max': self.sg.MaxStepGenerator}[kind]
            self.gens[op['g']] = cls(**op.get('opts', {}))
        return None

    def op_new(self, tid, op):
        cls = getattr(self.nd, op['cls'])
        fun = self._wrap_fun(tid, op['fun'])
        kw = {'method': op['method']}
        if 'order' in op:
            kw['order'] = op['order']
        if 'n' in op:
            kw['n'] = op['n']
        kw['step'] = self._resolve_step(op.get('step'))
        kw.update(op.get('opts', {}))
        if op.get('rt') is not None:
            kw['richardson_terms'] = op['rt']
        kw['full_output'] = bool(op.get('full', False))
        self.objs[op['o']] = cls(fun, **kw)
        return None

    def op_set(self, tid, op):
        setattr(self.objs[op['o']], op['attr'], op['value'])
        return None

    def _begin_call(self, tid, op, want_trace):
        ctx = self.ctx[tid]
        ctx.nevals = 0
        ctx.fired = False
        ctx.fault = op.get('fault')
        ctx.active = True
        ctx.trace = [] if want_trace else None
        flt = ctx.fault
        if flt is not None and flt['kind'] == 'abort' and not self.light:
            self.sched.abort_left[tid] = int(flt['at'])
            self.sched.abort_fired[tid] = False
            if not self.trace_all:
                self.sched.trace = True
                self.sched.install_trace(tid)
        return ctx

    def _end_call(self, tid, ctx):
        ctx.active = False
        flt = ctx.fault
        fired = ctx.fired
        if flt is not None and flt['kind'] == 'abort' and not self.light:
            if self.sched.abort_fired[tid]:
                fired = True
                self.sched.in_dea3[tid] = 0
                self.sched.in_miss[tid] = False
            self.sched.abort_left[tid] = 0
            if self.trace_all:
                self.sched.install_trace(tid)     # CPython drops the tracer when it raises
            else:
                self.sched.remove_trace()
                self.sched.trace = False
        if fired:
            self._count(flt['kind'] + (':' + flt['exc'] if flt['kind'] == 'f_raise' else ''))
        ctx.fault = None
        return fired

    def _judged(self, tid, op, thunk):
        ctx = self._begin_call(tid, op, want_trace=bool(self.plan.get('record_evals')))
        try:
            rec = canon(thunk())
        except BaseException as e:  # noqa: BLE001 - the exception *is* the observation
            rec = canon(e)
        fired = self._end_call(tid, ctx)
        out = {'rec': rec, 'faulted': fired, 'nevals': ctx.nevals}
        if ctx.trace is not None:
            out['evals'] = ctx.trace
        return out

    def op_call(self, tid, op):
        obj = self.objs[op['o']]
        x = make_x(op['x'])
        args = list(op.get('args', []))
        kwds = dict(op.get('kwds', {}))
        return self._judged(tid, op, lambda: obj(x, *args, **kwds))

    def op_ddiff(self, tid, op):
        fun = self._wrap_fun(tid, op['fun'])
        x = make_x(op['x'])
        v = make_x(op['v'])
        kw = dict(op.get('opts', {}))
        if 'step' in kw:
            kw['step'] = self._resolve_step(kw['step'])
        return self._judged(tid, op, lambda: self.nd.directionaldiff(fun, x, v, **kw))

    def op_rule(self, tid, op):
        rcls = getattr(self.fd, op.get('rcls', 'LogRule'))
        kw = {'method': op['method'], 'order': op['order']}
        if 'n' in op:
            kw['n'] = op['n']
        try:
            r = canon(np.array(rcls(**kw).rule(op['step_ratio']), copy=True))
        except Exception as e:  # noqa: BLE001
            r = canon(e)
        return {'rec': r, 'diag': True}

    def op_steps(self, tid, op):
        g = self.gens[op['g']]
        try:
            if op.get('partial'):
                # a step iterator that is only partly consumed and stays alive (legal use of the
                # public generator API; whatever it holds on to must not leak into later calls)
                it = iter(g(make_x(op['x']), op['method'], op['n'], op['order']))
                got = []
                for _ in range(int(op['partial'])):
                    try:
                        got.append(np.asarray(next(it)))
                    except StopIteration:
                        break
                self.__dict__.setdefault('_live_iters', []).append(it)
                self._count('partial_step_iterator_kept')
                r = canon(got)
            else:
                r = canon([np.asarray(s) for s in g(make_x(op['x']), op['method'], op['n'], op['order'])])
        except Exception as e:  # noqa: BLE001
            r = canon(e)
        return {'rec': r, 'diag': True}

    def op_cache(self, tid, op):
        cache = getattr(self.fd, 'FD_RULES', None)
        kind = op['kind']
        if not isinstance(cache, dict) and kind != 'prewarm':
            self._count('cache_op_unavailable')     # the cache global was renamed / replaced
            return None
        if kind == 'clear':
            cache.clear()
            self._count('cache_clear')
        elif kind == 'evict':
            n = 0
            for frac in op['fracs']:
                keys = sorted(dict.keys(cache))
                if not keys:
                    break
                del cache[keys[min(int(frac * len(keys)), len(keys) - 1)]]
                n += 1
            if n:
                self._count('cache_evict', n)
        elif kind == 'prewarm':
            n = 0
            for req in op['reqs']:
                res = self.op_rule(tid, req)
                n += 1
                del res
            self._count('cache_flood' if op.get('flood') else 'cache_prewarm', n)
        return None

    def op_dropgc(self, tid, op):
        self.objs.pop(op['o'], None)
        gc.collect()
        self._count('drop_gc')
        return None

    def op_limit(self, tid, op):
        """A Limit / Residue object used for a short history of its own (`steps`: evaluations at
        points via __call__ or .limit, attribute changes in between); the record is the list of the
        results.  With `fresh_each` every evaluation gets a brand-new object built with the
        configuration current at that point (the "same configuration built fresh" reference)."""
        if 'steps' not in op:           # old-style plans / replay files: one regular point, diagnostic
            fun = self._wrap_fun(tid, op['fun'])
            kw = dict(op.get('opts', {}))
            try:
                lim = self.limits.Limit(fun, step=self._resolve_step(op.get('step')),
                                        method=op.get('method', 'above'), order=op.get('order', 4),
                                        full_output=True, **kw)
                r = canon(lim(make_x(op['x'])))
            except Exception as e:  # noqa: BLE001
                r = canon(e)
            return {'rec': r, 'diag': True}
        fun = self._wrap_fun(tid, op['fun'])
        cls = getattr(self.limits, op.get('cls', 'Limit'))
        cfg = {'method': op.get('method', 'above'), 'full_output': bool(op.get('full', True))}
        for key in ('order', 'pole_order'):
            if key in op:
                cfg[key] = op[key]

        def build():
            st = self._resolve_step(op.get('step'))
            kw = dict(cfg)
            if not hasattr(st, '__call__') and op.get('gopts'):
                kw.update(op['gopts'])      # options of the CStepGenerator the object builds itself
            return cls(fun, step=st, **kw)

        def run():
            out = []
            obj = None
            for stp in op['steps']:
                try:
                    if 'set' in stp:
                        cfg[stp['set']] = stp['value']
                        if obj is not None and not op.get('fresh_each'):
                            setattr(obj, stp['set'], stp['value'])
                        continue
                    if obj is None or op.get('fresh_each'):
                        obj = build()
                    x = make_x(stp['x'])
                    r = obj.limit(x) if stp.get('via') == 'limit' else obj(x)
                    out.append(canon(r))
                except Exception as e:  # noqa: BLE001 - the exception is the observation
                    out.append(canon(e))
            return out
        ctx = self._begin_call(tid, op, want_trace=False)
        try:
            rec = ('list', tuple(run()))
        except BaseException as e:  # noqa: BLE001 - an injected abort: the op is faulted
            rec = canon(e)
        fired = self._end_call(tid, ctx)
        return {'rec': rec, 'faulted': fired, 'nevals': ctx.nevals}

    DISPATCH = {
        'newgen': op_newgen, 'new': op_new, 'set': op_set, 'call': op_call, 'ddiff': op_ddiff,
        'rule': op_rule, 'steps': op_steps, 'cache': op_cache, 'dropgc': op_dropgc,
        'limit': op_limit,
    }

    def _needs(self, op):
        """Names an op depends on (missing -> the op is skipped, e.g. after a failed constructor)."""
        k = op['op']
        need_o, need_g = [], []
        if k in ('set', 'call'):
            need_o.append(op['o'])
        if k == 'new':
            if isinstance(op.get('step'), dict):
                need_g.append(op['step']['gen'])
            if op['fun']['name'] == 'nested':
                need_o.append(op['fun']['inner'])
        if k == 'ddiff':
            st = op.get('opts', {}).get('step')
            if isinstance(st, dict):
                need_g.append(st['gen'])
        if k == 'steps':
            need_g.append(op['g'])
        if k == 'limit' and isinstance(op.get('step'), dict):
            need_g.append(op['step']['gen'])
        return need_o, need_g

    def run_task(self, tid):
        ops = self.plan['tasks'][tid]['ops']
        for idx, op in enumerate(ops):
            self.sched.yield_point(tid, 'O')
            need_o, need_g = self._needs(op)
            if any(o not in self.objs for o in need_o) or any(g not in self.gens for g in need_g):
                self.obs.append({'task': tid, 'idx': idx, 'op': op['op'], 'skipped': True})
                continue
            try:
                res = self.DISPATCH[op['op']](self, tid, op)
            except AbortInjected as e:      # abort landed outside a judged call: cannot happen
                res = {'rec': canon(e), 'faulted': True}
            except Exception as e:  # noqa: BLE001 - constructor / setter failure is an observation
                res = {'rec': canon(e), 'opfail': True}
            if op['op'] in ('call', 'ddiff'):
                self.sched.call_done[tid] = True
            entry = {'task': tid, 'idx': idx, 'op': op['op']}
            if res:
                entry.update(res)
            self.obs.append(entry)
            self._state_digest()

    def run(self):
        ntasks = len(self.plan['tasks'])
        self.sched.run([self.run_task] * ntasks)
        out = {'obs': self.obs, 'sched': self.sched.summary(), 'faults': self.fault_counts,
               'nstates': len(self.states), 'states': sorted(self.states)[:4096],
               'cache_seam': self.cache_seam_ok}
        if self.seam is not None:
            out['cache'] = dict(self.seam.stats)
        if not self.light:
            import hashlib
            import warnings
            out['conflict_sig'] = hashlib.blake2b(repr(self.sched.conflict).encode(),
                                                  digest_size=8).hexdigest()
            out['n_conflict_events'] = len(self.sched.conflict)
            out['warn_filter_leak'] = sum(1 for f in warnings.filters[:3]
                                          if f[0] == 'ignore' and f[2] is Warning and f[1] is None
                                          and f[3] is None)
        return out


def heap_canary():
    """Addresses of a few fresh objects: a fingerprint of the allocator state of this process."""
    objs = [object() for _ in range(4)] + [[] for _ in range(2)] + [np.zeros(3), np.zeros(40)]
    return [id(o) & 0xffffff for o in objs]


def execute_plan(plan, sched_spec=None, light=False, quiet=True):
    """Entry point used inside the fork."""
    canary0 = heap_canary()
    if quiet:
        try:
            import os
            devnull = os.open(os.devnull, os.O_WRONLY)
            os.dup2(devnull, 2)
        except OSError:
            pass
    sys.setswitchinterval(1000.0)
    from . import locks
    locks.install()          # locks the library creates lazily during calls are cooperative too
    ex = Executor(plan, sched_spec, light=light)
    out = ex.run()
    out['heap_canary'] = [canary0, heap_canary()]
    return out
