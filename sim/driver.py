"""Parallel seeded exploration: coordinator + forked workers, fork-per-run, fork-per-reference.

A property module provides
    ID, generate(run_seed, mode) -> plan, execute(plan, sched_spec=None) -> result (runs in a fork),
    judge(plan, result, refs) -> (violations, stats), merge-able stats dictionaries.
Every run is a pure function of (VERIF_SEED, property, mode, run_index).
"""
from __future__ import annotations

import mmap
import os
import pickle
import select
import struct
import sys
import time
import traceback

from .common import ForkError, ForkTimeout, derive_seed, isolated_call, jkey, set_slot

RUN_TIMEOUT = float(os.environ.get('VERIF_RUN_TIMEOUT', '120'))


class RefCache(object):
    """Fresh-state reference evaluator: one fork of the pristine parent per distinct request."""

    def __init__(self, evaluate, timeout=RUN_TIMEOUT):
        self.evaluate = evaluate
        self.memo = {}
        self.hits = 0
        self.evals = 0
        self.timeout = timeout

    def get(self, request):
        key = jkey(request)
        if key in self.memo:
            self.hits += 1
            return self.memo[key]
        self.evals += 1
        val = isolated_call(self.evaluate, (request,), timeout=self.timeout, label='reference')
        self.memo[key] = val
        return val


def merge_stats(a, b):
    """Recursively add counters / union small sets / extend sample lists."""
    for k, v in b.items():
        if k not in a:
            if isinstance(v, dict):
                a[k] = {}
                merge_stats(a[k], v)
            elif isinstance(v, (set, list)):
                a[k] = type(v)(v)
            else:
                a[k] = v
            continue
        if isinstance(v, dict):
            merge_stats(a[k], v)
        elif isinstance(v, set):
            a[k] |= v
        elif isinstance(v, list):
            a[k].extend(v)
            if k.startswith('sample'):
                del a[k][6:]
            elif k.startswith('refsample'):
                del a[k][64:]
        elif isinstance(v, bool):
            a[k] = a[k] or v
        elif isinstance(v, (int, float)):
            if k.startswith('max_'):
                a[k] = max(a[k], v)
            else:
                a[k] += v
        else:
            a[k] = v
    return a


def execute_isolated(prop, plan, sched_spec=None, timeout=RUN_TIMEOUT, label='run'):
    """Execute a plan in a fork-server child.  The plan is passed through a JSON round trip first so
    that the bytes the child unpickles (hence its heap) do not depend on where the plan came from
    (generator, shrinker or replay file)."""
    import json
    canon = json.loads(json.dumps(plan))
    sched = json.loads(json.dumps(sched_spec)) if sched_spec is not None else None
    return isolated_call(prop.execute, (canon, sched), timeout=timeout, label=label)


def directed_specs(result, seed, cap=5):
    """Conflict-directed refinement of one explored run.

    The base run recorded every touch of a process-shared object (rule-cache keys through the dict
    seam; elements of module/class-level containers through the alias watch).  For an object touched
    by at least two tasks, and a touch `a` of task A that is followed by touches of other tasks,
    build the schedule "replay the base run up to `a`, park A right there, let those other tasks run
    to completion inside the window, then resume A".  Rarely touched objects first."""
    import random
    sched = result['sched']
    touches = sched.get('touches') or []
    if not touches:
        return []
    rng = random.Random(derive_seed(seed, 'directed'))
    groups = {}
    for seq, tid, tp, obj, kind, lineno in touches:
        obj = tuple(obj)
        # an element of a shared container conflicts with every use of that container
        gkey = obj if obj[0] in ('cache', 'static') else ('container', obj[1])
        groups.setdefault(gkey, []).append((seq, tid, tp, kind, lineno, obj))
    cands = []
    for gkey, ts in groups.items():
        if len({t[1] for t in ts}) < 2:
            continue
        site_freq = {}
        for t in ts:
            site = (t[5], t[4], t[3])
            site_freq[site] = site_freq.get(site, 0) + 1
        per_victim = {}
        for i, (seq, tid, tp, kind, lineno, obj) in enumerate(ts):
            if gkey[0] == 'cache' and kind not in ('Cm', 'Cs'):
                continue
            later = sorted({t[1] for t in ts[i + 1:] if t[1] != tid})
            earlier = sorted({t[1] for t in ts[:i] if t[1] != tid} - set(later))
            # does another caller work on the very same element (not just the same container)?
            exact = obj[0] == 'elem' and any(t[5] == obj and t[1] != tid for t in ts)
            if later or earlier:
                per_victim.setdefault(tid, []).append((site_freq[(obj, lineno, kind)],
                                                       (0 if exact else 1) if obj[0] == 'elem' else 2,
                                                       tp, (later, earlier), (obj, lineno, kind), exact))
        for tid in sorted(per_victim):
            lst = sorted(per_victim[tid], key=lambda c: (c[1], c[0], c[2]))
            pick, sites = [], set()
            for c in lst:                      # one touch from each of the rarest sites first
                if c[4] not in sites:
                    sites.add(c[4])
                    pick.append(c)
                if len(pick) >= 4:
                    break
            rest = [c for c in lst if c not in pick]
            pick += rng.sample(rest, min(2, len(rest)))
            for rank, c in enumerate(pick):
                obj, lineno, kind = c[4]
                # mid-line touches of an aliased element first (no line-level pre-emption reaches
                # them), then line-level touches of elements, cache-key windows, container users
                if obj[0] == 'elem' and c[5]:
                    klass = -1 if kind in ('HX', 'X') else 0    # two callers on the same element
                elif obj[0] == 'elem':
                    klass = 0 if kind in ('HX', 'X') else 1
                elif obj[0] == 'static':
                    klass = 0           # right after a write to module/class-level state
                elif obj[0] == 'cache':
                    klass = 2
                else:
                    klass = 3 if kind in ('HX', 'X') else 4
                cands.append((klass, rank, len(ts), repr(gkey), tid, c[2], c[3]))
    cands.sort(key=lambda c: c[:6])
    # weighted sampling without replacement: precise windows are preferred but every class of
    # candidate keeps a chance, and different runs make different choices
    weight = {-1: 48.0, 0: 16.0, 1: 6.0, 2: 4.0, 3: 2.0, 4: 1.0}
    pool = []
    seen = set()
    for c in cands:
        if (c[4], c[5]) not in seen:
            seen.add((c[4], c[5]))
            pool.append(c)
    out = []
    while pool and len(out) < cap:
        ws = [weight[c[0]] / (1.0 + c[1]) for c in pool]
        r = rng.random() * sum(ws)
        acc = 0.0
        for i, w in enumerate(ws):
            acc += w
            if r <= acc:
                break
        c = pool.pop(i)
        later, earlier = c[6]
        # callers that touched the object BEFORE the victim in the base run can only get into its
        # window if they are held back until it opens (changes what precedes the window, so it is
        # one more dimension that is sampled rather than always applied)
        hold = earlier if (earlier and (not later or rng.random() < 0.5)) else []
        if not later and not hold:
            continue
        out.append({'mode': 'directed', 'segments': sched['segments'], 'victim': c[4], 'at': c[5],
                    'drain': hold + later, 'hold': hold})
    return out


def run_one(prop, mode, base, run_index, refs):
    """Execute and judge one simulated run.  Returns (violations, stats, harness_errors)."""
    seed = derive_seed(base, prop.ID, mode, run_index)
    plan = prop.generate(seed, mode)
    try:
        result = execute_isolated(prop, plan, None, label='run %s/%d' % (mode, run_index))
    except ForkTimeout as e:
        return [], {'runs': 1}, [{'kind': 'timeout', 'mode': mode, 'run_index': run_index,
                                  'seed': seed, 'msg': str(e)}]
    except ForkError as e:
        return [], {'runs': 1}, [{'kind': 'error', 'mode': mode, 'run_index': run_index,
                                  'seed': seed, 'msg': str(e)[:2000]}]
    try:
        violations, stats = prop.judge(plan, result, refs)
    except ForkTimeout as e:
        return [], {'runs': 1}, [{'kind': 'timeout', 'mode': mode, 'run_index': run_index,
                                  'seed': seed, 'msg': 'reference: ' + str(e)}]
    except ForkError as e:
        return [], {'runs': 1}, [{'kind': 'error', 'mode': mode, 'run_index': run_index,
                                  'seed': seed, 'msg': str(e)[:2000]}]
    stats['runs'] = 1
    for v in violations:
        v.update({'mode': mode, 'run_index': run_index, 'seed': seed, 'plan': plan,
                  'schedule': result.get('sched', {}).get('segments')})
    if not violations and len(plan['tasks']) > 1 and not result['sched'].get('capped') \
            and getattr(prop, 'DIRECTED', True):
        # second stage: conflict-directed schedules derived from what the base run touched
        try:
            for spec in directed_specs(result, seed):
                res2 = execute_isolated(prop, plan, spec, label='directed %s/%d' % (mode, run_index))
                v2, st2 = prop.judge(plan, res2, refs)
                stats['directed_runs'] = stats.get('directed_runs', 0) + 1
                stats['directed_windows_reached'] = stats.get('directed_windows_reached', 0) + \
                    (1 if res2['sched'].get('directed_fired') else 0)
                stats['directed_compared'] = stats.get('directed_compared', 0) + st2.get('compared', 0)
                stats['points'] = stats.get('points', 0) + st2.get('points', 0)
                if 'conflict_sigs' in st2:
                    stats.setdefault('conflict_sigs', set()).update(st2['conflict_sigs'])
                if v2:
                    for v in v2:
                        v.update({'mode': mode, 'run_index': run_index, 'seed': seed, 'plan': plan,
                                  'schedule': res2['sched']['segments'], 'via': 'directed',
                                  'sched_spec': spec})
                    violations = v2
                    break
        except ForkTimeout as e:
            return [], stats, [{'kind': 'timeout', 'mode': mode, 'run_index': run_index,
                                'seed': seed, 'msg': 'directed: ' + str(e)}]
        except ForkError as e:
            return [], stats, [{'kind': 'error', 'mode': mode, 'run_index': run_index,
                                'seed': seed, 'msg': str(e)[:2000]}]
    return violations, stats, []


def _worker(prop, mode, base, wid, nworkers, deadline, max_runs, stop, wfd, start_index):
    set_slot(wid + 1)
    refs = prop.make_refs()
    stats = {}
    errors = []
    viols = []
    per_class = {}
    i = start_index + wid
    n = 0
    try:
        while time.monotonic() < deadline and i < start_index + max_runs and stop[0] == 0:
            v, s, e = run_one(prop, mode, base, i, refs)
            merge_stats(stats, s)
            errors.extend(e)
            if v:
                for vv in v[:6]:
                    kc = prop.violation_class(vv)
                    per_class[kc] = per_class.get(kc, 0) + 1
                    if per_class[kc] <= 8:
                        viols.append(vv)
                if prop.stop_on_violation(v):
                    stop[0] = 1
                    break
            if len(errors) > 20:
                break
            i += nworkers
            n += 1
        stats['ref_evals'] = refs.evals
        stats['ref_memo_hits'] = refs.hits
        msg = ('done', stats, viols, errors)
    except BaseException as e:  # noqa: BLE001
        msg = ('crash', stats, viols, errors + [{'kind': 'worker-crash', 'mode': mode,
                                                  'msg': '%r\n%s' % (e, traceback.format_exc())}])
    data = pickle.dumps(msg, protocol=pickle.HIGHEST_PROTOCOL)
    with os.fdopen(wfd, 'wb') as f:
        f.write(struct.pack('<Q', len(data)))
        f.write(data)


def explore(prop, mode, base, budget_s, max_runs=10 ** 9, jobs=None, start_index=0):
    """Run one exploration phase on `jobs` workers; returns (stats, violations, errors, wall)."""
    jobs = jobs or int(os.environ.get('VERIF_JOBS') or os.cpu_count() or 4)
    jobs = max(1, min(jobs, max_runs, 64))
    stop = mmap.mmap(-1, 8)
    stop[0] = 0
    t0 = time.monotonic()
    deadline = t0 + budget_s
    pipes = []
    pids = []
    sys.stdout.flush()
    sys.stderr.flush()
    for w in range(jobs):
        r, wfd = os.pipe()
        pid = os.fork()
        if pid == 0:
            code = 0
            try:
                os.close(r)
                for rr in pipes:
                    os.close(rr)
                _worker(prop, mode, base, w, jobs, deadline, max_runs, stop, wfd, start_index)
            except BaseException:  # noqa: BLE001
                code = 3
            finally:
                os._exit(code)
        os.close(wfd)
        pipes.append(r)
        pids.append(pid)
    stats, viols, errors = {}, [], []
    bufs = {r: b'' for r in pipes}
    open_pipes = set(pipes)
    hard_deadline = deadline + RUN_TIMEOUT * 2 + 60
    while open_pipes:
        left = hard_deadline - time.monotonic()
        if left <= 0:
            errors.append({'kind': 'timeout', 'mode': mode, 'msg': 'worker(s) did not finish'})
            break
        ready, _, _ = select.select(list(open_pipes), [], [], min(left, 2.0))
        for r in ready:
            b = os.read(r, 1 << 20)
            if b:
                bufs[r] += b
            else:
                open_pipes.discard(r)
    for r in pipes:
        os.close(r)
    for pid in pids:
        try:
            if open_pipes:
                os.kill(pid, 9)
            os.waitpid(pid, 0)
        except (ChildProcessError, ProcessLookupError):
            pass
    for r in pipes:
        data = bufs[r]
        if len(data) < 8:
            errors.append({'kind': 'error', 'mode': mode, 'msg': 'worker died without report'})
            continue
        (ln,) = struct.unpack('<Q', data[:8])
        msg = pickle.loads(data[8:8 + ln])
        merge_stats(stats, msg[1])
        viols.extend(msg[2])
        errors.extend(msg[3])
    viols.sort(key=lambda v: v['run_index'])
    return stats, viols, errors, time.monotonic() - t0
