"""Deterministic user functions the simulated callers differentiate (the only "peer" of the library).

Every function is a pure function of its arguments built from numpy ufuncs and arithmetic, so it
accepts real, complex and (where the arithmetic allows) Bicomplex arguments.  Functions that fail
for some argument type fail identically in every interpreter state, which is all C09 needs.
"""
from __future__ import annotations

import numpy as np

# ---- elementwise R -> R (Derivative, directionaldiff building blocks) -------------------------


def f_exp(x):
    return np.exp(x)


def f_sin(x):
    return np.sin(x)


def f_cos(x):
    return np.cos(x)


def f_tanh(x):
    return np.tanh(x)


def f_log(x):
    return np.log(x)


def f_sqrt(x):
    return np.sqrt(x)


def f_arctan(x):
    return np.arctan(x)


def f_poly3(x):
    return x ** 3 + x ** 2


def f_poly5(x):
    return 0.5 * x ** 5 - 3.0 * x ** 2 + x - 7.0


def f_runge(x):
    return 1.0 / (1.0 + x ** 2)


def f_expsin(x):
    return np.exp(0.5 * x) * np.sin(3.0 * x)


def f_const(x):
    return 0.0 * x + 2.5


def f_recip(x):
    return 1.0 / x


def f_scaled(x, a, b=1.0):
    """Needs *args / **kwds forwarding."""
    return a * np.exp(b * x)


def f_absx(x):
    return np.abs(x) * x


# ---- R^n -> R (Gradient, Hessian, Hessdiag, directionaldiff) ----------------------------------


def g_sumsq(x):
    return np.sum(x ** 2, axis=0)


def g_rosen(x):
    x = np.atleast_1d(x)
    if len(x) < 2:
        return (1.0 - x[0]) ** 2
    return (1.0 - x[0]) ** 2 + 105.0 * (x[1] - x[0] ** 2) ** 2


def g_mix(x):
    x = np.atleast_1d(x)
    tot = 0.0
    for i in range(len(x)):
        tot = tot + np.sin(x[i]) * (i + 1.0) + x[i] * x[(i + 1) % len(x)]
    return tot


def g_expsum(x):
    x = np.atleast_1d(x)
    return np.exp(0.3 * np.sum(x, axis=0))


def g_cubes(x):
    x = np.atleast_1d(x)
    tot = 0.0
    for i in range(len(x)):
        tot = tot + x[i] ** (i + 1)
    return tot


def g_logsum(x):
    x = np.atleast_1d(x)
    return np.log(np.sum(x * x, axis=0))


def g_weighted(x, w, p=2):
    x = np.atleast_1d(x)
    return w * np.sum(x ** p, axis=0)


# ---- R^n -> R^m (Jacobian) --------------------------------------------------------------------


def h_square(x):
    return x ** 2


def h_pair(x):
    x = np.atleast_1d(x)
    return np.array([x[0] * x[-1], np.sin(x[0]), x[-1] ** 2 + x[0]])


def h_resid(x):
    x = np.atleast_1d(x)
    t = np.arange(5) * 0.25
    c0 = x[0]
    c1 = x[1 % len(x)]
    return (c0 + c1 * np.exp(0.75 * t) - (1.0 + 2.0 * np.exp(0.75 * t))) ** 2


def h_matrix(x):
    x = np.atleast_1d(x)
    return np.vstack((x[0] * x[-1] ** 2 + 0 * x, x[0] * x[-1] + 0 * x))


def h_scalar(x):
    x = np.atleast_1d(x)
    return x[0] * x[-1] ** 2


SS = {  # elementwise
    'exp': f_exp, 'sin': f_sin, 'cos': f_cos, 'tanh': f_tanh, 'log': f_log, 'sqrt': f_sqrt,
    'arctan': f_arctan, 'poly3': f_poly3, 'poly5': f_poly5, 'runge': f_runge, 'expsin': f_expsin,
    'const': f_const, 'recip': f_recip, 'absx': f_absx,
}
SS_ARGS = {'scaled': f_scaled}
VS = {'sumsq': g_sumsq, 'rosen': g_rosen, 'mix': g_mix, 'expsum': g_expsum, 'cubes': g_cubes,
      'logsum': g_logsum}
VS_ARGS = {'weighted': g_weighted}
VV = {'square': h_square, 'pair': h_pair, 'resid': h_resid, 'matrix': h_matrix,
      'hscalar': h_scalar}

# functions with a removable singularity / a pole at 0 (Limit, Residue); numpy warnings of the 0/0
# evaluation are the library's business (Limit.__call__ runs it under np.errstate)
def l_sinc(x):
    return np.sin(x) / x


def l_cosq(x):
    return (np.cos(x) - 1.0) / x


def l_expq(x):
    return (x * np.exp(x) - np.expm1(x)) / x ** 2


def l_xsin3(x):
    return (x - np.sin(x)) / x ** 3


def l_bern(x):
    return -x / np.expm1(2 * x)


def l_pole1(x):
    return -1.0 / np.expm1(2 * x)


def l_pole2(x):
    return 1.0 / np.sin(x) ** 2


def l_pole_mixed(x):
    return np.exp(x) / x + np.cos(x)


LIMS = {'sinc': l_sinc, 'cosq': l_cosq, 'expq': l_expq, 'xsin3': l_xsin3, 'bern': l_bern}
POLES = {'pole1': l_pole1, 'pole2': l_pole2, 'pole_mixed': l_pole_mixed}


def p_vsum(r):
    return np.sum(r, axis=0)


ALL = {'vsum': p_vsum}
for _d in (SS, SS_ARGS, VS, VS_ARGS, VV, LIMS, POLES):
    ALL.update(_d)

# default (args, kwds) for functions that need them; plans may override
DEFAULT_ARGS = {
    'scaled': ([[2.0], {}], [[0.5], {'b': 2.0}], [[-1.5], {'b': 0.25}]),
    'weighted': ([[3.0], {}], [[0.5], {'p': 3}]),
}
