"""Delta debugging of a failing plan (operations, tasks, faults, values, schedule segments)."""
from __future__ import annotations

import copy
import time


def _deps_ok(op, objs, gens):
    k = op['op']
    if k in ('set', 'call', 'dropgc'):
        return op['o'] in objs
    if k == 'new':
        if isinstance(op.get('step'), dict) and op['step']['gen'] not in gens:
            return False
        if op['fun']['name'] == 'nested' and op['fun']['inner'] not in objs:
            return False
        return True
    if k == 'ddiff':
        st = op.get('opts', {}).get('step')
        return not (isinstance(st, dict) and st['gen'] not in gens)
    if k == 'steps':
        return op['g'] in gens
    if k == 'limit':
        st = op.get('step')
        return not (isinstance(st, dict) and st['gen'] not in gens)
    # C14 ops
    if k in ('feed', 'retire'):
        return op['i'] in objs
    return True


def prune(ops):
    """Drop operations whose prerequisites are gone (dependency closure of a removal)."""
    objs, gens, out = set(), set(), []
    for op in ops:
        if not _deps_ok(op, objs, gens):
            continue
        if op['op'] == 'new':
            objs.add(op['o'])
        elif op['op'] == 'newgen':
            gens.add(op['g'])
        elif op['op'] == 'spawn':
            objs.add(op['i'])
        out.append(op)
    return out


def _ddmin_list(items, rebuild, fails, deadline):
    """Classic ddmin over a list; rebuild(sublist) -> candidate plan."""
    n = 2
    while len(items) >= 1 and time.monotonic() < deadline:
        chunk = max(1, len(items) // n)
        removed = False
        i = 0
        while i < len(items) and time.monotonic() < deadline:
            cand = items[:i] + items[i + chunk:]
            if fails(rebuild(cand)):
                items = cand
                removed = True
                n = max(n - 1, 2)
            else:
                i += chunk
        if not removed:
            if chunk == 1:
                break
            n = min(len(items), n * 2)
    return items


def shrink(plan, fails, budget_s=60.0, simplifiers=()):
    """Returns a smaller plan for which fails(plan) is still true.  fails must be deterministic."""
    deadline = time.monotonic() + budget_s
    plan = copy.deepcopy(plan)
    tries = [0]

    def f(p):
        tries[0] += 1
        return fails(p)

    # 1. drop whole tasks
    t = 0
    while len(plan['tasks']) > 1 and t < len(plan['tasks']) and time.monotonic() < deadline:
        cand = copy.deepcopy(plan)
        del cand['tasks'][t]
        _renumber_sched(cand, t)
        if f(cand):
            plan = cand
        else:
            t += 1
    # 2. ddmin the operations of every task
    for rounds in range(2):
        for t in range(len(plan['tasks'])):
            def rebuild(sub, t=t):
                c = copy.deepcopy(plan)
                c['tasks'][t]['ops'] = prune(copy.deepcopy(sub))
                return c
            ops = _ddmin_list(plan['tasks'][t]['ops'], rebuild, f, deadline)
            plan['tasks'][t]['ops'] = prune(ops)
    # 3. drop faults, then simplify values
    for t in range(len(plan['tasks'])):
        for i in range(len(plan['tasks'][t]['ops'])):
            if time.monotonic() >= deadline:
                break
            op = plan['tasks'][t]['ops'][i]
            if op.get('fault'):
                cand = copy.deepcopy(plan)
                cand['tasks'][t]['ops'][i].pop('fault')
                if f(cand):
                    plan = cand
            for simp in simplifiers:
                for cand_op in simp(plan['tasks'][t]['ops'][i]):
                    if time.monotonic() >= deadline:
                        break
                    cand = copy.deepcopy(plan)
                    cand['tasks'][t]['ops'][i] = cand_op
                    if f(cand):
                        plan = cand
    return plan, tries[0]


def _renumber_sched(plan, removed):
    s = plan.get('sched')
    if s and 'prio' in s and len(s['prio']) > removed:
        s['prio'] = s['prio'][:removed] + s['prio'][removed + 1:]
    if s and s.get('mode') == 'replay':
        segs = []
        for seg in s.get('segments', []):
            if seg[0] == removed:
                continue
            seg = list(seg)
            if seg[0] > removed:
                seg[0] -= 1
            segs.append(seg)
        s['segments'] = segs
    if len(plan['tasks']) == 1:
        plan['trace'] = False


def shrink_schedule(plan, segments, fails_with_schedule, budget_s=30.0):
    """Merge schedule segments (fewer context switches) while the violation persists."""
    deadline = time.monotonic() + budget_s
    segs = [list(s) for s in segments]

    def norm(ss):
        out = []
        for s in ss:
            if out and out[-1][0] == s[0] and len(out[-1]) == 2:
                out[-1][1] += s[1]
                if len(s) > 2:
                    out[-1] = [s[0], out[-1][1], 1]
            else:
                out.append(list(s))
        return out

    if not fails_with_schedule(plan, segs):
        return None          # the recorded schedule does not reproduce: keep exploring seed
    # fully sequential first
    order = []
    for s in segs:
        if s[0] not in order:
            order.append(s[0])
    seq = [[t, 1 << 40, 1] for t in order]
    if fails_with_schedule(plan, seq):
        return seq
    n = 2
    while len(segs) > 1 and time.monotonic() < deadline:
        chunk = max(1, len(segs) // n)
        removed = False
        i = 0
        while i < len(segs) and time.monotonic() < deadline:
            cand = norm(segs[:i] + segs[i + chunk:])
            if cand and fails_with_schedule(plan, cand):
                segs = cand
                removed = True
            else:
                i += chunk
        if not removed:
            if chunk == 1:
                break
            n = min(len(segs), n * 2)
    return segs
