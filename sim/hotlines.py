"""Static pre-analysis of the library: source lines that write process-shared state.

The thread scheduler biases pre-emptions to land right after such a line (the classic window of an
atomicity violation: "publish a key, compute, then publish the value").  The analysis is a
heuristic used only to *place* context switches; it has no influence on what is judged.

A line is "hot" when it
  * assigns / aug-assigns / deletes  X.attr  or  X[...]  where X is a module-level name, a class
    name, ``cls`` or any name that is not ``self`` and not bound in the enclosing function;
  * rebinds a name declared ``global``;
  * calls a mutating method (append, pop, clear, update, setdefault, insert, remove, popitem,
    extend, add, discard) on such an X or on ``X.attr`` of such an X.
"""
from __future__ import annotations

import ast
import os

MUTATORS = frozenset(('append', 'pop', 'clear', 'update', 'setdefault', 'insert', 'remove',
                      'popitem', 'extend', 'add', 'discard', 'sort', 'reverse'))


def _root_name(node):
    while isinstance(node, (ast.Attribute, ast.Subscript)):
        node = node.value
    return node.id if isinstance(node, ast.Name) else None


class _Fn(ast.NodeVisitor):
    def __init__(self, module_names, hot, depth_locals=None):
        self.module_names = module_names
        self.hot = hot
        self.locals = set()
        self.globals = set()

    def shared(self, name):
        if name is None or name == 'self':
            return False
        if name in self.globals:
            return True
        if name == 'cls':
            return True
        return name in self.module_names and name not in self.locals

    def visit_FunctionDef(self, node):
        sub = _Fn(self.module_names, self.hot)
        for a in node.args.args + node.args.kwonlyargs + node.args.posonlyargs:
            sub.locals.add(a.arg)
        if node.args.vararg:
            sub.locals.add(node.args.vararg.arg)
        if node.args.kwarg:
            sub.locals.add(node.args.kwarg.arg)
        for n in ast.walk(node):
            if isinstance(n, ast.Global):
                sub.globals.update(n.names)
        for n in ast.walk(node):
            if isinstance(n, ast.Name) and isinstance(n.ctx, ast.Store) and n.id not in sub.globals:
                sub.locals.add(n.id)
        for stmt in node.body:
            sub.visit(stmt)

    visit_AsyncFunctionDef = visit_FunctionDef

    def _target(self, t, lineno):
        if isinstance(t, (ast.Tuple, ast.List)):
            for e in t.elts:
                self._target(e, lineno)
        elif isinstance(t, (ast.Attribute, ast.Subscript)):
            if self.shared(_root_name(t)):
                self.hot.add(lineno)
        elif isinstance(t, ast.Name) and t.id in self.globals:
            self.hot.add(lineno)

    def visit_Assign(self, node):
        for t in node.targets:
            self._target(t, node.lineno)
        self.generic_visit(node)

    def visit_AugAssign(self, node):
        self._target(node.target, node.lineno)
        self.generic_visit(node)

    def visit_AnnAssign(self, node):
        self._target(node.target, node.lineno)
        self.generic_visit(node)

    def visit_Delete(self, node):
        for t in node.targets:
            self._target(t, node.lineno)

    def visit_Call(self, node):
        f = node.func
        if isinstance(f, ast.Attribute) and f.attr in MUTATORS and self.shared(_root_name(f.value)):
            self.hot.add(node.lineno)
        self.generic_visit(node)


def hot_lines(lib_root):
    """{absolute filename: frozenset(line numbers)} for every module under lib_root."""
    out = {}
    for dirpath, dirnames, filenames in os.walk(lib_root):
        dirnames[:] = [d for d in dirnames if d not in ('tests', '__pycache__')]
        for fn in filenames:
            if not fn.endswith('.py'):
                continue
            path = os.path.join(dirpath, fn)
            try:
                with open(path) as f:
                    tree = ast.parse(f.read())
            except (SyntaxError, UnicodeDecodeError):
                continue
            names = set()
            for n in tree.body:
                if isinstance(n, (ast.Assign, ast.AnnAssign, ast.AugAssign)):
                    for t in ast.walk(n):
                        if isinstance(t, ast.Name) and isinstance(t.ctx, ast.Store):
                            names.add(t.id)
                elif isinstance(n, ast.ClassDef):
                    names.add(n.name)
            hot = set()
            v = _Fn(names, hot)
            for n in tree.body:
                if isinstance(n, (ast.FunctionDef, ast.AsyncFunctionDef)):
                    v.visit(n)
                elif isinstance(n, ast.ClassDef):
                    for m in ast.walk(n):
                        if isinstance(m, (ast.FunctionDef, ast.AsyncFunctionDef)):
                            v.visit_FunctionDef(m)
            if hot:
                out[path] = frozenset(hot)
    return out


def with_lines(lib_root):
    """{absolute filename: frozenset(line numbers of `with` statements)}.

    The exit sequence of a `with` block is attributed to the `with` line and shows up as a second
    line event there, *before* __exit__ is called and outside the block's exception table.  An
    exception raised by the tracer at that event would skip __exit__, which a real asynchronous
    exception cannot do; the abort injector therefore never fires on these lines."""
    out = {}
    for dirpath, dirnames, filenames in os.walk(lib_root):
        dirnames[:] = [d for d in dirnames if d not in ('tests', '__pycache__')]
        for fn in filenames:
            if not fn.endswith('.py'):
                continue
            path = os.path.join(dirpath, fn)
            try:
                with open(path) as f:
                    tree = ast.parse(f.read())
            except (SyntaxError, UnicodeDecodeError):
                continue
            lines = set()
            for n in ast.walk(tree):
                if isinstance(n, (ast.With, ast.AsyncWith)):
                    lines.add(n.lineno)
                    for it in n.items:
                        lines.add(it.context_expr.lineno)
            if lines:
                out[path] = frozenset(lines)
    return out
