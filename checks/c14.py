"""C14 - streaming epsilon algorithms: EpsAlg matches the Shanks table; Dea is total.

System under simulation: up to 6 live accelerator instances per caller, 1..8 callers, each instance
bound to its own input stream; the plan (and, across callers, the seeded scheduler) decides which
instance receives its next term.  After every feed the invariants of DESIGN 5.2 are evaluated.
"""
from __future__ import annotations

import copy
import math
import random
import struct
import sys
from fractions import Fraction

ID = 'C14'
EPS = 2.220446049250313e-16
HUGE = 1.7976931348623157e308


# =========================================================================== streams (pure python)

def _geo(rng, n):
    k = rng.randint(1, 4)
    L = rng.choice([0.0, 1.0, -3.7, 1e-3, 1e5, 0.5, 2.0, -1.0, 1.8136256697942846])
    qs = [rng.choice([-1, 1]) * rng.uniform(0.05, 0.95) for _ in range(k)]
    as_ = [rng.choice([-1, 1]) * 10 ** rng.uniform(-1, 1) for _ in range(k)]
    return [L + sum(a * q ** i for a, q in zip(as_, qs)) for i in range(n)], {'family': 'geo', 'k': k}


def _geo_clean(rng, n):
    """One transient with an exactly representable ratio: converges to a constant tail."""
    L = rng.choice([1.0, 0.0, 2.0, -4.0, 0.75])
    q = rng.choice([0.5, 0.25, -0.5, 0.125, 0.0625, -0.25])
    a = rng.choice([1.0, -1.0, 2.0, 0.5, 3.0])
    return [L + a * q ** i for i in range(n)], {'family': 'geo_clean', 'k': 1}


def _const(rng, n):
    c = rng.choice([0.0, 1.0, -2.5, 1.8136256697942846, 1e-7, 3e8])
    m = rng.randint(0, min(n, 8))
    head = [c + rng.uniform(-1, 1) for _ in range(m)]
    return head + [c] * (n - m), {'family': 'eventually_const', 'head': m}


def _random(rng, n):
    r = rng.random()
    if r < 0.4:
        return [rng.uniform(-1, 1) for _ in range(n)], {'family': 'random_uniform'}
    if r < 0.6:
        return [float(rng.randint(-3, 3)) for _ in range(n)], {'family': 'random_int'}
    if r < 0.8:
        pool = [rng.uniform(-2, 2) for _ in range(rng.randint(1, 3))]
        return [rng.choice(pool) for _ in range(n)], {'family': 'random_few_values'}
    return [rng.gauss(0, 1) * 10 ** rng.uniform(-3, 3) for _ in range(n)], {'family': 'random_wide'}


def _divergent(rng, n):
    q = rng.choice([-1, 1]) * rng.uniform(1.05, 3.0)
    L = rng.choice([0.0, 1.0, -2.0])
    a = rng.choice([1.0, -0.5, 0.01])
    out = []
    for i in range(n):
        v = L + a * q ** min(i, 600)
        out.append(v if abs(v) < 1e100 else math.copysign(1e100, v))
    return out, {'family': 'divergent'}


def _series(rng, n):
    which = rng.choice(['basel', 'log2', 'harmonic', 'leibniz', 'exp', 'trapz'])
    out, s = [], 0.0
    if which == 'trapz':
        for i in range(min(n, 14)):
            m = 2 ** i
            h = (math.pi / 2) / m
            out.append(h * (sum(math.sin(j * h) for j in range(1, m)) + 0.5 * (math.sin(0) + 1.0)))
        while len(out) < n:
            out.append(out[-1])
        return out, {'family': 'series', 'which': which}
    for i in range(1, n + 1):
        if which == 'basel':
            s += 1.0 / (i * i)
        elif which == 'log2':
            s += (-1.0) ** (i + 1) / i
        elif which == 'harmonic':
            s += 1.0 / i
        elif which == 'leibniz':
            s += 4.0 * (-1.0) ** (i + 1) / (2 * i - 1)
        else:
            s += 1.0 / math.factorial(min(i - 1, 170))
        out.append(s)
    return out, {'family': 'series', 'which': which}


def _int_geo(rng, n):
    """Integer-valued L + a*q**i (exactly representable), held constant once it gets large."""
    L = rng.choice([0, 1, -1, 7, -3])
    q = rng.choice([2, 3, -2, -3, 5])
    a = rng.choice([1, 2, -1, 3])
    out = []
    for i in range(n):
        v = L + a * q ** min(i, 18)
        out.append(float(v if abs(v) < 10 ** 6 else (out[-1] if out else 0)))
    return out, {'family': 'int_geo', 'k': 1}


_TIES = [(10001.0, -20000.0, 0.5), (10001.0, -40000.0, 0.25), (10001.0, -50000.0, 0.2),
         (5000.5, -10000.0, 0.5), (10001.0, 20000.0, -0.5), (-9999.0, -12500.0, -0.8)]


def _threshold(rng, n):
    """First three terms on (or within a few ulps of) a decision threshold of the guards: the
    irregular-behaviour test |sss*e_1| <= 1e-4 and the convergence tests |delta| <= eps*scale."""
    r = rng.random()
    if r < 0.3:
        L, a, q = rng.choice(_TIES)
        sc = 2.0 ** rng.randint(-20, 20)
        terms = [sc * (L + a * q ** i) for i in range(max(n, 3))]
        return terms[:max(n, 3)], {'family': 'threshold_tie'}
    s0 = rng.uniform(-10, 10) * 10 ** rng.randint(-3, 3)
    s1 = rng.uniform(-10, 10) * 10 ** rng.randint(-3, 3)
    if s1 == s0 or s1 == 0.0:
        s1 = s0 + 1.0
    if r < 0.75:
        d3 = s1 - s0
        inv = 1.0 / d3 + rng.choice([-1, 1]) * 1e-4 / abs(s1)
        s2 = s1 + (1.0 / inv if inv != 0.0 else 1.0)
    else:
        s2 = s1 * (1.0 + rng.choice([-1, 1]) * EPS * rng.choice([0.5, 1.0, 2.0]))   # convergence edge
    for _ in range(rng.randint(0, 3)):
        s2 = math.nextafter(s2, rng.choice([-math.inf, math.inf]))
    terms = [s0, s1, s2]
    q = rng.uniform(-0.9, 0.9)
    while len(terms) < n:
        terms.append(terms[-1] + (terms[-1] - terms[-2]) * q)
    return [t if math.isfinite(t) else 0.0 for t in terms], {'family': 'threshold'}


FAMILIES = {'threshold': _threshold, 'int_geo': _int_geo, 'geo': _geo, 'geo_clean': _geo_clean, 'const': _const, 'random': _random,
            'divergent': _divergent, 'series': _series}


def _small_ints(rng, n):
    return [float(rng.randint(-9, 9)) for _ in range(n)], {'family': 'random_int'}


def _round_f32(t):
    t = max(-3.0e38, min(3.0e38, t))
    return struct.unpack('<f', struct.pack('<f', t))[0]


def _round_f16(t):
    import numpy as np
    with np.errstate(all='ignore'):
        v = float(np.float16(max(-6.0e4, min(6.0e4, t))))
    return v


def typed(term, dt):
    """The object actually handed to the accelerator for a plan term."""
    if not dt:
        return term
    import numpy as np
    if dt is True or dt == 'f64':
        return np.float64(term)
    if dt == 'f32':
        return np.float32(term)
    if dt == 'i64':
        return np.int64(int(term))
    if dt == 'i32':
        return np.int32(int(term))
    if dt == 'arr0d':
        return np.array(term)
    if dt == 'longdouble':
        return np.longdouble(term)
    if dt == 'f16':
        return np.float16(term)
    return int(term)


def make_stream(rng, n, families):
    fam = rng.choice(families)
    terms, meta = FAMILIES[fam](rng, n)
    r = rng.random()
    if r < 0.25:
        sc = 10.0 ** rng.randint(-30, 30)
        terms = [t * sc for t in terms]
        meta['scaled'] = sc
    elif r < 0.30:
        sc = 10.0 ** (rng.choice([-1, 1]) * rng.randint(100, 145))
        terms = [t * sc for t in terms]
        meta['scaled'] = sc
    terms = [float(t) if abs(t) < 1e150 else math.copysign(1e150, t) for t in terms]
    return terms, meta


# =========================================================================== plan generation

def generate(run_seed, mode='seq'):
    rng = random.Random(run_seed)
    fams = rng.choice([['geo'], ['geo', 'geo_clean'], ['geo_clean', 'const'], sorted(FAMILIES),
                       sorted(FAMILIES), ['random'], ['series', 'divergent'], ['geo_clean'],
                       ['threshold'], ['threshold', 'geo']])
    small_tables = rng.random() < 0.5
    long_streams = rng.random() < (0.25 if mode == 'seq' else 0.05)
    p_eps = rng.choice([0.0, 0.3, 0.5, 1.0])
    nt = 1 if mode == 'seq' else rng.choice([2, 2, 3, 4, 4, 8])
    p_abort = rng.choice([0.0, 0.0, 0.02])
    p_retire = rng.choice([0.0, 0.02, 0.1])
    dtype_mode = rng.choice([None, None, None, 'f64', 'f32', 'i64', 'i32', 'pyint', 'arr0d',
                             'longdouble', 'f16'])
    p_relim = rng.choice([0.0, 0.0, 0.3, 0.7])      # table size re-assigned through the public setter
    relim_sizes = [rng.randint(3, 12) for _ in range(2)]
    tasks = []
    if mode == 'seq' and rng.random() < 0.04:
        # one or two LONG EpsAlg histories (105..125 terms, one time in four 126..200 = the upper end
        # of the quantifier, of a stream whose high-order table entries stay well defined), compared
        # with the exact table all the way; a Dea runs alongside
        ops = []
        very_deep = rng.random() < 0.25
        for j in range(1 if very_deep else rng.randint(1, 2)):
            n = rng.randint(126, 200) if very_deep else rng.randint(105, 125)
            fam = rng.choice(['random', 'random', 'series'])
            terms, meta = FAMILIES[fam](rng, n)
            meta['deep'] = True
            ops.append({'op': 'spawn', 'i': 't0.e%d' % j, 'terms': terms, 'meta': meta, 'np': None,
                        'cls': 'EpsAlg'})
        terms, meta = make_stream(rng, 120, fams)
        ops.append({'op': 'spawn', 'i': 't0.d0', 'terms': terms, 'meta': meta, 'np': None, 'cls': 'Dea',
                    'limexp': rng.randint(3, 60)})
        names = [o['i'] for o in ops]
        for k in range(200 if very_deep else 125):
            for nm in names:
                ops.append({'op': 'feed', 'i': nm})
        return {'property': ID, 'mode': mode, 'tasks': [{'ops': ops}], 'trace': False, 'deep_epsalg': True}
    if mode == 'seq' and rng.random() < 0.08:
        # many short-lived instances: anything that depends on how many accelerators were ever
        # created in the process (counters, pools, registries) shows up here.  A handful of
        # distinct streams is reused so that only a handful of lone-instance references is needed.
        pool = []
        for _ in range(rng.randint(1, 4)):
            terms, meta = make_stream(rng, rng.randint(3, 9), fams)
            cls = 'EpsAlg' if rng.random() < p_eps else 'Dea'
            pool.append((cls, rng.randint(3, 12), terms, meta))
        ops = []
        ninst = rng.randint(60, 300)
        for j in range(ninst):
            cls, lim, terms, meta = pool[rng.randrange(len(pool))]
            op = {'op': 'spawn', 'i': 't0.i%d' % (j + 1), 'terms': terms, 'meta': meta, 'np': None,
                  'cls': cls}
            if cls == 'Dea':
                op['limexp'] = lim
                if rng.random() < p_relim:
                    op['limexp0'] = rng.choice(relim_sizes + [p[1] for p in pool])
            ops.append(op)
            ops.extend({'op': 'feed', 'i': op['i']} for _ in terms)
            if rng.random() < 0.5:
                ops.append({'op': 'retire', 'i': op['i']})
        return {'property': ID, 'mode': mode, 'tasks': [{'ops': ops}], 'trace': False,
                'many_instances': ninst}
    for tid in range(nt):
        ninst = rng.randint(1, 6 if mode == 'seq' else 3)
        ops, live, counter = [], {}, 0
        budget = rng.randint(1, 200 if long_streams else 60) if mode == 'seq' else rng.randint(3, 40)

        def spawn():
            nonlocal counter
            counter += 1
            name = 't%d.i%d' % (tid, counter)
            n = rng.randint(1, 200 if long_streams else 40)
            dt = dtype_mode if rng.random() < 0.7 else None
            if dt in ('i64', 'i32', 'pyint'):
                terms, meta = (_int_geo if rng.random() < 0.5 else _small_ints)(rng, n)
            else:
                terms, meta = make_stream(rng, n, fams)
                if dt == 'f32':
                    terms = [_round_f32(t) for t in terms]
                elif dt == 'f16':
                    terms = [_round_f16(t) for t in terms]
            op = {'op': 'spawn', 'i': name, 'terms': terms, 'meta': meta, 'np': dt}
            if rng.random() < p_eps:
                op['cls'] = 'EpsAlg'
            else:
                op['cls'] = 'Dea'
                op['limexp'] = rng.randint(3, 9) if small_tables else rng.randint(3, 60)
                if rng.random() < p_relim:
                    # built with another size, then set to `limexp` through the public setter before
                    # the first term: must behave like Dea(limexp) (the lone reference does the same)
                    op['limexp0'] = rng.choice(relim_sizes) if rng.random() < 0.7 else \
                        (rng.randint(3, 9) if small_tables else rng.randint(3, 60))
            ops.append(op)
            live[name] = [0, n]

        for _ in range(ninst):
            spawn()
        total = 0
        cap = budget * ninst
        while live and total < cap:
            name = rng.choice(sorted(live))
            burst = rng.choice([1, 1, 1, 2, 5, 20])
            for _ in range(burst):
                st = live.get(name)
                if st is None or st[0] >= st[1]:
                    live.pop(name, None)
                    break
                op = {'op': 'feed', 'i': name}
                if rng.random() < p_abort:
                    op['fault'] = {'kind': 'abort', 'at': rng.randint(1, 60)}
                ops.append(op)
                st[0] += 1
                total += 1
            if name in live and rng.random() < p_retire:
                ops.append({'op': 'retire', 'i': name})
                live.pop(name)
                spawn()
        tasks.append({'ops': ops})
    plan = {'property': ID, 'mode': mode, 'tasks': tasks, 'trace': nt > 1}
    if nt > 1:
        plan['sched'] = {
            'mode': 'explore', 'seed': rng.getrandbits(48),
            'mean_gap': rng.choice([5, 50, 500]), 'budget': rng.choice([2, 8, 32, 128]),
            'bias': rng.choice([0.0, 0.3, 0.8]), 'probe': rng.choice([0.0, 0.5, 1.0]),
            'alias': rng.random() < 0.4,
            'targets': sorted(set(rng.randint(1, max(20, 3 * sum(
                1 for t in tasks for o in t['ops'] if o['op'] == 'feed')))
                for _ in range(rng.choice([0, 1, 2, 4, 8, 16])))),
            'pick': rng.choice(['uniform', 'prio']),
            'prio': [rng.random() for _ in range(nt)],
        }
    return plan


# =========================================================================== execution (in a fork)

def _bits(x):
    return struct.pack('<d', float(x))


def _rec(val):
    """Canonical record of one accelerator output."""
    if isinstance(val, BaseException):
        return ('exc', type(val).__name__, str(val))
    if isinstance(val, tuple):
        return ('pair',) + tuple(_bits(v) for v in val)
    return ('val', _bits(val))


class _Exec(object):
    def __init__(self, plan, sched_spec=None, light=False):
        from sim.common import import_library
        from sim.sched import Scheduler
        import_library()
        from numdifftools import extrapolation
        self.ext = extrapolation
        self.plan = plan
        self.light = light
        nt = len(plan['tasks'])
        trace = bool(plan.get('trace', nt > 1)) and not light
        self.trace_all = trace
        self.sched = Scheduler(nt, sched_spec if sched_spec is not None else plan.get('sched'),
                               trace=trace)
        self.inst = {}
        self.pos = {}
        self.obs = []
        self.faults = {}

    def run_task(self, tid):
        import numpy as np
        from sim.sched import AbortInjected
        sched = self.sched
        for idx, op in enumerate(self.plan['tasks'][tid]['ops']):
            sched.yield_point(tid, 'O')
            k = op['op']
            if k == 'spawn':
                try:
                    self.inst[op['i']] = (build_instance(self.ext, op['cls'], op.get('limexp'),
                                                         op.get('limexp0')), op)
                except Exception as e:  # noqa: BLE001 - a constructor that raises is an observation
                    self.obs.append({'task': tid, 'idx': idx, 'i': op['i'], 'k': -1, 'rec': _rec(e),
                                     'faulted': False, 'spawn_exc': True})
                    continue
                self.pos[op['i']] = 0
            elif k == 'retire':
                self.inst.pop(op['i'], None)
            elif k == 'feed':
                if op['i'] not in self.inst:
                    continue
                obj, sp = self.inst[op['i']]
                p = self.pos[op['i']]
                if p >= len(sp['terms']):
                    continue
                self.pos[op['i']] = p + 1
                term = typed(sp['terms'][p], sp.get('np'))
                flt = op.get('fault')
                fired = False
                if flt and not self.light:
                    sched.abort_left[tid] = int(flt['at'])
                    sched.abort_fired[tid] = False
                    if not self.trace_all:
                        sched.trace = True
                        sched.install_trace(tid)
                try:
                    val = obj(term)
                except AbortInjected as e:
                    val = e
                except Exception as e:  # noqa: BLE001 - the exception is the observation
                    val = e
                if flt and not self.light:
                    fired = sched.abort_fired[tid]
                    sched.abort_left[tid] = 0
                    if self.trace_all:
                        sched.install_trace(tid)
                    else:
                        sched.remove_trace()
                        sched.trace = False
                    if fired:
                        self.faults['abort'] = self.faults.get('abort', 0) + 1
                sched.call_done[tid] = True
                self.obs.append({'task': tid, 'idx': idx, 'i': op['i'], 'k': p, 'rec': _rec(val),
                                 'faulted': fired})

    def run(self):
        nt = len(self.plan['tasks'])
        self.sched.run([self.run_task] * nt)
        return {'obs': self.obs, 'sched': self.sched.summary(), 'faults': self.faults}


def build_instance(ext, cls, limexp, limexp0=None):
    if cls == 'EpsAlg':
        return ext.EpsAlg()
    if limexp0 is None:
        return ext.Dea(limexp=limexp)
    obj = ext.Dea(limexp=limexp0)
    obj.limexp = limexp
    return obj


def execute(plan, sched_spec=None):
    import os
    try:
        os.dup2(os.open(os.devnull, os.O_WRONLY), 2)
    except OSError:
        pass
    sys.setswitchinterval(1000.0)
    from sim import locks
    from sim.executor import heap_canary
    locks.install()
    c0 = heap_canary()
    out = _Exec(plan, sched_spec).run()
    out['heap_canary'] = [c0, heap_canary()]
    return out


def eval_ref(request):
    """Lone instance fed the same stream in a fork of the pristine parent (+ dea3 / EpsAlg on the
    first three terms, which are library calls and therefore also made here)."""
    import os
    from sim.common import import_library
    try:
        os.dup2(os.open(os.devnull, os.O_WRONLY), 2)
    except OSError:
        pass
    import_library()
    import numpy as np
    from numdifftools import extrapolation as ext
    cls, limexp, terms, use_np = request[:4]
    obj = build_instance(ext, cls, limexp, request[4] if len(request) > 4 else None)
    out = []
    for t in terms:
        try:
            out.append(_rec(obj(typed(t, use_np))))
        except Exception as e:  # noqa: BLE001
            out.append(_rec(e))
    extra = None
    if cls == 'Dea' and len(terms) >= 3:
        try:
            with np.errstate(all='ignore'):
                r, a = ext.dea3(terms[0], terms[1], terms[2])
            e3 = ext.EpsAlg()
            for t in terms[:3]:
                ev = e3(t)
            extra = {'dea3': (float(r[0]), float(a[0])), 'epsalg3': float(ev)}
        except Exception as e:  # noqa: BLE001
            extra = {'error': repr(e)}
    return out, extra


def make_refs():
    from sim.driver import RefCache
    return RefCache(eval_ref)


# =========================================================================== reference models

class ExactTable(object):
    """Wynn's epsilon table from its definition, in exact rationals, with a double witness.

    eps_{-1}^{(j)} = 0, eps_0^{(j)} = s_j,
    eps_{k+1}^{(j)} = eps_{k-1}^{(j+1)} + 1 / (eps_k^{(j+1)} - eps_k^{(j)})
    """

    def __init__(self):
        self.T = {}      # (k, j) -> Fraction
        self.W = {}      # (k, j) -> float (same recurrence evaluated in doubles)
        self.W2 = {}     # (k, j) -> float, differently rounded formula (below*d + 1)/d
        self.W3 = {}     # (k, j) -> float, formula of W on terms moved by one ulp (alternating)
        self.E = {}      # (k, j) -> first-order bound on the rounding error of ANY reasonable double
        #                  evaluation of the entry (a few ulps per operation, propagated)
        self.n = -1
        self.defined = True
        self.min_margin = float('inf')
        self.min_abs = float('inf')

    def push(self, s):
        """Add term s_n; returns (exact even-order entry, witness) or None when undefined."""
        self.n += 1
        n = self.n
        if not self.defined:
            return None
        T, W, E, W2, W3 = self.T, self.W, self.E, self.W2, self.W3
        u = 8.0 * EPS
        T[(0, n)] = Fraction(s)
        W[(0, n)] = float(s)
        W2[(0, n)] = float(s)
        W3[(0, n)] = math.nextafter(float(s), math.inf if n % 2 else -math.inf)
        E[(0, n)] = 0.0
        for k in range(1, n + 1):
            j = n - k
            a, b = T[(k - 1, j + 1)], T[(k - 1, j)]
            d = a - b
            wa, wb = W[(k - 1, j + 1)], W[(k - 1, j)]
            wd = wa - wb
            if d == 0 or wd == 0.0:
                self.defined = False
                return None
            scale = max(abs(a), abs(b))
            rel = abs(d) / scale if scale != 0 else float('inf')
            self.min_margin = min(self.min_margin, float(rel))
            self.min_abs = min(self.min_abs, abs(wd))
            below = T[(k - 2, j + 1)] if k >= 2 else Fraction(0)
            wbelow = W[(k - 2, j + 1)] if k >= 2 else 0.0
            T[(k, j)] = below + 1 / d
            W[(k, j)] = wbelow + 1.0 / wd
            d2 = W2[(k - 1, j + 1)] - W2[(k - 1, j)]
            b2 = W2[(k - 2, j + 1)] if k >= 2 else 0.0
            W2[(k, j)] = (b2 * d2 + 1.0) / d2 if d2 != 0.0 else float('inf')
            d3 = W3[(k - 1, j + 1)] - W3[(k - 1, j)]
            b3 = W3[(k - 2, j + 1)] if k >= 2 else 0.0
            W3[(k, j)] = b3 + 1.0 / d3 if d3 != 0.0 else float('inf')
            fd = abs(float(d))
            finv = 1.0 / fd if fd > 0.0 else float('inf')
            e_d = E[(k - 1, j + 1)] + E[(k - 1, j)] + u * fd
            e_below = E[(k - 2, j + 1)] if k >= 2 else 0.0
            E[(k, j)] = e_below + e_d * finv * finv + u * (abs(float(below)) + finv)
        k = 2 * (n // 2)
        self.last_bound = E[(k, n - k)]
        self.last_alt = (W2[(k, n - k)], W3[(k, n - k)])
        return T[(k, n - k)], W[(k, n - k)]


def _unbits(b):
    return struct.unpack('<d', b)[0]


MAX_EXACT_TERMS = {'quick': 60, 'thorough': 200}


def check_epsalg(terms, recs, deep=False):
    """Returns (violation detail or None, counters)."""
    import os
    cnt = {'eps_checked': 0, 'eps_skipped_margin': 0, 'eps_skipped_cond': 0, 'eps_checked_beyond_25': 0,
           'max_eps_checked_k': 0}
    tab = ExactTable()
    cap = MAX_EXACT_TERMS.get(os.environ.get('VERIF_TIER_EFFECTIVE', 'quick'), 60)
    if deep:
        cap = max(cap, 205)
    for k, rec in enumerate(recs):
        if k >= cap:
            break
        r = tab.push(terms[k])
        if rec[0] != 'val':
            return {'kind': 'epsalg_raises', 'k': k, 'rec': rec}, cnt
        if r is None:
            break                      # a table difference vanished: the statement stops applying
        exact, w = r
        if tab.min_margin < 1e-9 or tab.min_abs < 1e-50:
            cnt['eps_skipped_margin'] += 1
            continue
        got = _unbits(rec[1])
        ex = float(exact)
        scale = max(abs(ex), 5e-324)
        # conditioning is MEASURED on three double evaluations of the entry: the plain recurrence,
        # a differently rounded formula, and the plain recurrence on terms moved by one ulp
        devs = [float(abs(Fraction(w) - exact))]
        for alt in tab.last_alt:
            devs.append(float(abs(Fraction(alt) - exact)) if math.isfinite(alt) else float('inf'))
        werr = max(devs)
        bound = tab.last_bound
        if not werr <= 4e-4 * scale:
            cnt['eps_skipped_cond'] += 1          # tolerance would exceed 2 %: undiscriminating
            continue
        if werr > 2e-8 * scale:
            cnt['eps_checked_weakly'] = cnt.get('eps_checked_weakly', 0) + 1   # tolerance above 1e-6
        # tolerance: 50 x the largest deviation among the witnesses, never below 64 ulps; the
        # a-priori first-order bound (hopelessly pessimistic deep down) may add at most 1e-6 relative
        tol = max(50.0 * werr, 64 * EPS * scale, min(8.0 * bound, 1e-6 * scale))
        cnt['eps_checked'] += 1
        if k >= 25:
            cnt['eps_checked_beyond_25'] += 1
        cnt['max_eps_checked_k'] = max(cnt['max_eps_checked_k'], k)
        if not (abs(Fraction(got) - exact) <= tol):
            return {'kind': 'epsalg_table', 'k': k, 'got': got, 'exact': ex, 'witness': w,
                    'tol': tol}, cnt
    return None, cnt


def check_dea(terms, recs, extra, limexp):
    cnt = {'dea_checked': 0, 'dea3_checked': 0, 'dea_eps_checked': 0, 'dea_floor_checked': 0}
    for k, rec in enumerate(recs):
        if rec[0] == 'exc':
            return {'kind': 'dea_raises', 'k': k, 'exc': rec[1], 'msg': rec[2], 'limexp': limexp}, cnt
        res, err = _unbits(rec[1]), _unbits(rec[2])
        cnt['dea_checked'] += 1
        if not (math.isfinite(res) and math.isfinite(err)):
            return {'kind': 'dea_nonfinite', 'k': k, 'result': res, 'abserr': err}, cnt
        if err < 0:
            return {'kind': 'dea_negative_abserr', 'k': k, 'result': res, 'abserr': err}, cnt
        if k >= 2:
            cnt['dea_floor_checked'] += 1
            if not (err >= 5.0 * EPS * abs(res)):
                return {'kind': 'dea_floor', 'k': k, 'result': res, 'abserr': err,
                        'floor': 5.0 * EPS * abs(res), 'limexp': limexp}, cnt
    if len(recs) >= 1 and recs[0][0] == 'pair' and _unbits(recs[0][1]) != terms[0]:
        return {'kind': 'dea_first_terms', 'k': 0}, cnt
    if len(recs) >= 2 and recs[1][0] == 'pair' and _unbits(recs[1][1]) != terms[1]:
        return {'kind': 'dea_first_terms', 'k': 1}, cnt
    if len(recs) >= 3 and extra and 'dea3' in extra:
        s0, s1, s2 = (Fraction(t) for t in terms[:3])
        d2, d3 = s2 - s1, s1 - s0
        e1 = abs(s1)
        tol2 = max(abs(s2), e1) * Fraction(EPS)
        tol3 = max(e1, abs(s0)) * Fraction(EPS)
        res = _unbits(recs[2][1])
        r3, a3 = extra['dea3']
        scale = max(abs(terms[0]), abs(terms[1]), abs(terms[2]), 5e-324)
        conv = abs(d2) <= tol2 or abs(d3) <= tol3
        borderline = False
        epsinf = None
        if not conv:
            sss = 1 / d2 - 1 / d3
            epsinf = abs(sss * s1)
            borderline = Fraction(5, 100000) < epsinf < Fraction(2, 10000)
            near_conv = abs(d2) <= 10 * tol2 or abs(d3) <= 10 * tol3
        else:
            near_conv = True
        # (no borderline band: Dea and dea3 evaluate the same guard expressions on the same doubles -
        # the subnormal extra terms of either formula are absorbed - so they must agree even on an
        # exact tie of a threshold; measured: 0 disagreements in 200 000 triples within 3 ulps)
        if math.isfinite(r3):
            cnt['dea3_checked'] += 1
            tol = 1e-9 * max(scale, abs(r3))
            if not abs(res - r3) <= tol:
                return {'kind': 'dea_vs_dea3', 'k': 2, 'dea': res, 'dea3': r3}, cnt
        # EpsAlg treats a table difference below 1e-60 (absolute) as vanished; with a margin, the
        # comparison with EpsAlg is only made when none of the three-term table's differences is
        # anywhere near that (same rule as in check_epsalg)
        eps_ok = False
        if not conv:
            diffs = [abs(d2), abs(d3), abs(1 / d2 - 1 / d3)]
            eps_ok = min(diffs) >= Fraction(1, 10 ** 50)
        if eps_ok and not near_conv and epsinf is not None and epsinf > Fraction(1, 1000):
            ev = extra['epsalg3']
            cnt['dea_eps_checked'] += 1
            tol = 1e-9 * max(scale, abs(ev))
            if not abs(res - ev) <= tol:
                return {'kind': 'dea_vs_epsalg', 'k': 2, 'dea': res, 'epsalg': ev}, cnt
    return None, cnt


# =========================================================================== judge

def judge(plan, result, refs):
    sched = result['sched']
    nt = len(plan['tasks'])
    if sched.get('errors'):
        from sim.common import ForkError
        raise ForkError('task thread crashed: %r' % (sched['errors'],))
    stats = {'points': sched['points'], 'switches': sched['switches'],
             'lock_blocks': sched.get('lock_blocks', 0), 'hot_points': sched.get('hot_points', 0),
             'probe_switches': sched.get('probe_switches', 0),
             'kind_counts': dict(sched['kind_counts']), 'faults_fired': dict(result['faults']),
             'feeds': len(result['obs']), 'instances': 0, 'compared': 0,
             'max_ntasks': nt, 'runs_by_ntasks': {str(nt): 1},
             'instances_interleaved': 0, 'max_stream_len': 0,
             'families': {}, 'limexp_seen': set(), 'capped_runs': 1 if sched['capped'] else 0}
    if plan.get('many_instances'):
        stats['many_instance_runs'] = 1
        stats['max_instances_in_one_process'] = plan['many_instances']
    by_inst = {}
    order = []
    spawn_failed = []
    for ob in result['obs']:
        if ob.get('spawn_exc'):
            spawn_failed.append(ob)
            continue
        by_inst.setdefault(ob['i'], []).append(ob)
        order.append(ob['i'])
    spawn = {}
    for t in plan['tasks']:
        for op in t['ops']:
            if op['op'] == 'spawn':
                spawn[op['i']] = op
    # how many instances had another instance fed between two of their own feeds
    last_seen = {}
    interleaved = set()
    for pos, name in enumerate(order):
        if name in last_seen and last_seen[name] != pos - 1:
            interleaved.add(name)
        last_seen[name] = pos
    stats['instances_interleaved'] = len(interleaved)
    violations = []
    shapes = set()
    for ob in spawn_failed:
        # limexp >= 3 always: a lone instance is constructed without an exception (the reference
        # request below constructs it), so a constructor that raises depends on other instances
        sp = spawn[ob['i']]
        ref_req = [sp['cls'], sp.get('limexp'), [], sp.get('np')] + \
            ([sp['limexp0']] if sp.get('limexp0') else [])
        refs.get(ref_req)
        violations.append({'property': ID, 'kind': 'constructor_raises', 'cls': sp['cls'],
                           'task': ob['task'], 'idx': ob['idx'], 'instance': ob['i'],
                           'diff': 'constructor', 'detail': {'kind': 'constructor_raises', 'k': 0,
                                                              'rec': ob['rec']},
                           'reference_request': ref_req, 'observed': None, 'reference': None})
    for name, obs in by_inst.items():
        sp = spawn[name]
        stats['instances'] += 1
        fam = sp['meta'].get('family', '?')
        stats['families'][fam] = stats['families'].get(fam, 0) + 1
        dtk = str(sp.get('np') or 'pyfloat')
        stats.setdefault('term_types', {})
        stats['term_types'][dtk] = stats['term_types'].get(dtk, 0) + 1
        # an aborted feed leaves the instance in an unspecified state: judge only what precedes it
        cut = len(obs)
        for q, ob in enumerate(obs):
            if ob['faulted']:
                cut = q
                break
        obs = obs[:cut]
        if not obs:
            continue
        nfed = len(obs)
        stats['max_stream_len'] = max(stats['max_stream_len'], nfed)
        terms = sp['terms'][:nfed]
        recs = [o['rec'] for o in obs]
        cls = sp['cls']
        limexp = sp.get('limexp')
        if limexp:
            stats['limexp_seen'].add(limexp)
        ref_req = [cls, limexp, terms, sp.get('np')] + ([sp['limexp0']] if sp.get('limexp0') else [])
        if sp.get('limexp0'):
            stats['dea_instances_resized_before_use'] = stats.get('dea_instances_resized_before_use', 0) + 1
        ref_recs, extra = refs.get(ref_req)
        if stats['compared'] == 0 and nfed <= 60:
            stats['refsample'] = [ref_req]
        stats['compared'] += nfed
        detail = None
        if recs != ref_recs:
            k = next(i for i, (a, b) in enumerate(zip(recs, ref_recs)) if a != b)
            detail = {'kind': 'isolation', 'k': k, 'observed': recs[k], 'lone_instance': ref_recs[k]}
        if detail is None:
            if cls == 'EpsAlg' and sp.get('np') in ('f32', 'f16', 'longdouble'):
                detail, cnt = None, {}   # arithmetic not in doubles (the witness is): isolation only
            elif cls == 'EpsAlg':
                detail, cnt = check_epsalg(terms, recs, deep=bool(sp['meta'].get('deep')))
            else:
                detail, cnt = check_dea(terms, recs, extra, limexp)
            for kk, vv in cnt.items():
                if kk.startswith('max_'):
                    stats[kk] = max(stats.get(kk, 0), vv)
                else:
                    stats[kk] = stats.get(kk, 0) + vv
        if nfed >= 3:
            shapes.add((cls, limexp, fam, min(nfed, 64), name in interleaved))
        if detail is not None:
            violations.append({'property': ID, 'kind': detail['kind'], 'cls': cls, 'task': obs[0]['task'],
                               'idx': obs[min(detail['k'], len(obs) - 1)]['idx'], 'instance': name,
                               'diff': 'term %d' % detail['k'], 'detail': detail,
                               'reference_request': ref_req,
                               'observed': None, 'reference': None})
    from sim.common import short_hash
    stats['shapes'] = {short_hash(list(s)) for s in shapes}
    if shapes:
        stats['sample_plans'] = [{'plan': _abbrev(plan), 'schedule': sched['segments'][:20]}]
    return violations, stats


def _abbrev(plan):
    p = copy.deepcopy(plan)
    for t in p['tasks']:
        feeds = 0
        out = []
        for op in t['ops']:
            if op['op'] == 'spawn':
                op = dict(op, terms=op['terms'][:6] + (['...(%d terms)' % len(op['terms'])]
                                                        if len(op['terms']) > 6 else []))
                out.append(op)
            elif op['op'] == 'feed':
                feeds += 1
                if feeds <= 12:
                    out.append(op)
            else:
                out.append(op)
        if feeds > 12:
            out.append('... %d more feeds' % (feeds - 12))
        t['ops'] = out
    return p


# =========================================================================== check interface

def assert_pristine():
    return None


def phases(tier):
    return [('seq', 0.6), ('thr', 0.4)]


def determinism_count(tier):
    return 12 if tier == 'quick' else 100


_KNOWN = None


def stop_on_violation(viols):
    """Stop early on a violation that is not a listed known finding (those must not mask new ones)."""
    global _KNOWN
    if _KNOWN is None:
        import json
        import os
        try:
            with open(os.path.join(os.path.dirname(os.path.dirname(os.path.abspath(__file__))),
                                   'known_findings.json')) as f:
                _KNOWN = [e for e in json.load(f).get('findings', [])
                          if e.get('property') == ID and e.get('status', 'open') == 'open']
        except (OSError, ValueError):
            _KNOWN = []
    return any(match_known(v, _KNOWN) is None for v in viols)


def violation_class(v):
    return (v['kind'], v['cls'])


def match_known(viol, known):
    d = viol.get('detail') or {}
    for e in known:
        m = e.get('match', {})
        if m.get('kind') != viol['kind'] or m.get('cls', viol['cls']) != viol['cls']:
            continue
        if 'exc' in m and m['exc'] != d.get('exc'):
            continue
        return e
    return None


def simplify_op(op):
    if op['op'] == 'spawn':
        n = len(op['terms'])
        for m in (n // 2, n - 1):
            if 0 < m < n:
                c = copy.deepcopy(op)
                c['terms'] = c['terms'][:m]
                yield c
        if op.get('np'):
            c = copy.deepcopy(op)
            c['np'] = None
            yield c


def evidence(tier, seed, by_mode, det, n_viol, known_hits, errors, wall):
    from sim.common import source_hash
    tot = sum(s.get('runs', 0) + s.get('directed_runs', 0) for s in by_mode.values())
    shapes = set()
    for s in by_mode.values():
        shapes |= s.get('shapes', set())
    samples = []
    for m, s in by_mode.items():
        for sp in s.get('sample_plans', [])[:2]:
            samples.append({'mode': m, 'tasks': sp['plan']['tasks'], 'schedule_segments': sp['schedule']})
    per_mode = {}
    faults = {}
    for m, s in by_mode.items():
        w = max(s.get('wall_s', 0.0), 1e-9)
        for k, v in s.get('faults_fired', {}).items():
            faults[k] = faults.get(k, 0) + v
        per_mode[m] = {
            'runs': s.get('runs', 0), 'wall_s': round(w, 2),
            'runs_per_hour': int(s.get('runs', 0) * 3600 / w),
            'instances': s.get('instances', 0), 'feeds_judged': s.get('compared', 0),
            'instances_interleaved_with_others': s.get('instances_interleaved', 0),
            'max_stream_len': s.get('max_stream_len', 0),
            'families': s.get('families', {}),
            'term_types': s.get('term_types', {}),
            'runs_with_60_to_300_instances_in_one_process': s.get('many_instance_runs', 0),
            'limexp_values_seen': sorted(s.get('limexp_seen', set())),
            'epsalg_exact_checks': s.get('eps_checked', 0),
            'epsalg_exact_checks_beyond_25_terms': s.get('eps_checked_beyond_25', 0),
            'epsalg_exact_checks_with_tolerance_above_1e-6_relative': s.get('eps_checked_weakly', 0),
            'epsalg_longest_prefix_checked_exactly': s.get('max_eps_checked_k', 0) + 1,
            'epsalg_skipped_vanishing_margin': s.get('eps_skipped_margin', 0),
            'epsalg_skipped_ill_conditioned': s.get('eps_skipped_cond', 0),
            'dea_feeds_checked_total_finite': s.get('dea_checked', 0),
            'dea_instances_resized_through_setter_before_use': s.get('dea_instances_resized_before_use', 0),
            'dea_floor_checks': s.get('dea_floor_checked', 0),
            'dea_vs_dea3_checks': s.get('dea3_checked', 0),
            'dea_vs_epsalg_checks': s.get('dea_eps_checked', 0),
            'isolation_reference_evaluations': s.get('ref_evals', 0),
            'yield_points': s.get('points', 0), 'preemptions': s.get('switches', 0),
            'hot_yield_points_after_shared_writes': s.get('hot_points', 0),
            'atomicity_probe_switches': s.get('probe_switches', 0),
            'conflict_directed_runs': s.get('directed_runs', 0),
            'conflict_directed_windows_reached': s.get('directed_windows_reached', 0),
            'conflict_directed_compared_calls': s.get('directed_compared', 0),
            'waits_on_library_locks': s.get('lock_blocks', 0),
            'seeds_per_hour': int(s.get('runs', 0) * 3600 / w),
            'runs_by_ntasks': s.get('runs_by_ntasks', {}), 'max_threads': s.get('max_ntasks', 0),
        }
    faults['preemption'] = sum(s.get('switches', 0) for s in by_mode.values())
    return {
        'property_id': ID, 'tier': tier, 'seed': seed, 'level': 'exploration',
        'wall_s': round(wall, 2), 'violations': n_viol,
        'coverage': {
            'evaluations': sum(s.get('instances', 0) for s in by_mode.values()),
            'simulated_runs': tot,
            'distinct_nontrivial': len(shapes),
            'rule': ('one evaluation = one accelerator instance history judged term by term inside a '
                     'simulated run (a run = fork of a never-used interpreter with 1..6 live instances per '
                     'caller and 1..8 callers; the plan/scheduler chooses which instance is fed next); an '
                     'instance history is non-trivial when at least three terms were fed and judged; distinct '
                     '= distinct (class, limexp, stream family, history length capped at 64, '
                     'interleaved-with-other-instances flag) tuples among them, counted by hashing'),
            'samples': samples[:3],
            'simulated_time': {'unit': 'logical yield points (no clock in this code base)',
                               'total': sum(s.get('points', 0) for s in by_mode.values())},
            'fault_kinds_fired': faults,
            'per_mode': per_mode,
            'determinism_selftest': det,
            'known_findings_hit': known_hits,
            'harness_errors': errors[:5],
            'components': {'real': ['numdifftools.extrapolation (working tree)', 'numpy', 'CPython threads'],
                           'stubbed': [],
                           'harness': ['input streams', 'thread scheduler', 'exact-rational Wynn table model']},
            'source_hash': source_hash(),
        },
        'assumptions': [
            'the harness exact-rational Wynn table (checks/c14.py ExactTable) is the reference for EpsAlg',
            'EpsAlg tolerance = max(1e3*|double witness - exact|, 64 eps*|exact|); steps whose witness '
            'error exceeds 1e-6 relative, or with a table difference below 1e-9 relative / 1e-50 absolute, are skipped',
            'exact EpsAlg comparison for prefixes of <= 60 terms (quick) / 120 (thorough); beyond that only isolation',
            'finite-for-finite explored for |terms| <= 1e100',
        ],
    }
