"""C09 - results depend only on (function, point, configuration), not on history or threads.

* ``generate(run_seed, mode)``  : pure plan generator (never touches the library)
* ``miniplans(plan, task, idx)``: the two fresh-state reference requests for one judged call
* ``judge(...)``                : compares observations with forked fresh-state references
"""
from __future__ import annotations

import copy
import random

from sim import funpool

REAL = ('central', 'forward', 'backward')
CPLX = ('complex', 'multicomplex')
HESS = ('Hessdiag', 'Hessian')
CLASSES = ('Derivative', 'Gradient', 'Jacobian', 'Hessdiag', 'Hessian')

X_SCALARS = [0.0, 1.0, 0.5, -2.3, 1e-3, 100.0, 0.7, -0.5, 3.0, 1e-8, 12.5, 710.0]
X_POS = [1.0, 0.5, 1e-3, 100.0, 0.7, 3.0, 2.0]


def _xspec_elementwise(rng):
    r = rng.random()
    if r < 0.45:
        return {'t': 'float', 'v': rng.choice(X_SCALARS)}
    if r < 0.55:
        return {'t': 'int', 'v': rng.choice([0, 1, 2, -1, 3])}
    if r < 0.70:
        k = rng.randint(1, 4)
        return {'t': 'list', 'v': [rng.choice(X_SCALARS) for _ in range(k)]}
    if r < 0.90:
        k = rng.randint(1, 4)
        return {'t': 'arr', 'v': [rng.choice(X_SCALARS) for _ in range(k)], 'shape': [k],
                'dtype': 'float64'}
    if r < 0.95:
        return {'t': 'arr', 'v': [rng.choice(X_SCALARS) for _ in range(4)], 'shape': [2, 2],
                'dtype': 'float64'}
    return {'t': 'arr', 'v': [rng.choice([1, 2, 3]) for _ in range(2)], 'shape': [2],
            'dtype': 'int64'}


def _xspec_vector(rng, maxdim=3):
    k = rng.randint(1, maxdim)
    r = rng.random()
    vals = [rng.choice(X_SCALARS) for _ in range(k)]
    if r < 0.25:
        return {'t': 'list', 'v': vals}
    if r < 0.30 and k == 1:
        return {'t': 'float', 'v': vals[0]}
    return {'t': 'arr', 'v': vals, 'shape': [k], 'dtype': 'float64'}


GEN_OPTS = {
    'base_step': [None, 0.01, 0.1, 1e-4, 0.5],
    'step_ratio': [None, 2.0, 1.6, 4.0, 3],
    'num_steps': [None, 3, 5, 10, 15, 1, 7],
    'step_nom': [None, 1.0, 0.5],
    'offset': [0, 1, -1, 2],
    'num_extrap': [0, 2, 9, 4],
    'use_exact_steps': [True, False],
    'check_num_steps': [True, False],
    'scale': [None, 2.0, 500, 1.2, 3.0],
}
OBJ_OPTS = {
    'step_ratio': [2.0, 1.6, 4.0, 3],
    'num_steps': [3, 5, 10, 15, 7, 1],
    'offset': [0, 1, -1],
    'num_extrap': [0, 2, 9, 4],
    'use_exact_steps': [True, False],
    'scale': [2.0, 500, 3.0],
    'step_nom': [1.0, 0.5],
}


def _draw_gen_opts(rng):
    opts = {}
    for k, vals in GEN_OPTS.items():
        if rng.random() < 0.3:
            v = rng.choice(vals)
            if v is not None or k in ('base_step', 'step_ratio', 'num_steps', 'scale'):
                opts[k] = v
    return opts


def _draw_obj_opts(rng):
    opts = {}
    for k, vals in OBJ_OPTS.items():
        if rng.random() < 0.12:
            opts[k] = rng.choice(vals)
    return opts


class _TaskGen(object):
    """Generates the operation list of one simulated caller."""

    def __init__(self, rng, tid, knobs, allow_one_step):
        self.rng = rng
        self.tid = tid
        self.k = knobs
        self.ops = []
        self.objs = {}      # name -> dict(cls, fun kind, has args, live)
        self.gens = []
        self.counter = 0
        self.allow_one_step = allow_one_step
        self.xpool = {}
        self.changed = {}   # name -> set of attrs changed since construction

    def name(self, prefix):
        self.counter += 1
        return 't%d.%s%d' % (self.tid, prefix, self.counter)

    # -- pools drawn per run -------------------------------------------------------------
    def method(self, cls):
        pool = list(self.k['methods'])
        if cls in HESS and self.rng.random() < 0.15:
            pool = pool + ['central2']
        return self.rng.choice(pool)

    def fun_for(self, cls):
        rng = self.rng
        if cls == 'Derivative':
            inner = [n for n, o in self.objs.items()
                     if o['cls'] == 'Derivative' and o['live'] and not o['args'] and o['depth'] < 1]
            if inner and rng.random() < self.k['p_nested']:
                return {'name': 'nested', 'inner': rng.choice(sorted(inner)),
                        'post': rng.choice([None, 'sin', 'poly3'])}, None
            if rng.random() < 0.12:
                nm = 'scaled'
                a = rng.choice(funpool.DEFAULT_ARGS[nm])
                return {'name': nm}, copy.deepcopy(a)
            return {'name': rng.choice(self.k['ss'])}, None
        inner = [n for n, o in self.objs.items()
                 if o['cls'] in ('Derivative', 'Gradient') and o['live'] and not o['args']
                 and o['depth'] < 1]
        if inner and rng.random() < self.k['p_nested']:
            # re-entrancy from a multivariate object: the function evaluates another live object
            # (an elementwise Derivative, or a Gradient of the same dimension) on its argument
            return {'name': 'nested', 'inner': rng.choice(sorted(inner)),
                    'post': None if cls == 'Jacobian' else 'vsum'}, None
        if cls == 'Jacobian':
            return {'name': rng.choice(self.k['vv'])}, None
        if rng.random() < 0.1:
            nm = 'weighted'
            a = rng.choice(funpool.DEFAULT_ARGS[nm])
            return {'name': nm}, copy.deepcopy(a)
        return {'name': rng.choice(self.k['vs'])}, None

    def x_for(self, cls, fresh=False):
        rng = self.rng
        key = 'e' if cls == 'Derivative' else 'v'
        pool = self.xpool.setdefault(key, [])
        if pool and not fresh and rng.random() < self.k['p_xreuse']:
            return copy.deepcopy(rng.choice(pool))
        x = _xspec_elementwise(rng) if key == 'e' else _xspec_vector(rng, self.k['maxdim'])
        if len(pool) < 4:
            pool.append(x)
        return copy.deepcopy(x)

    # -- op constructors -------------------------------------------------------------------
    def add_newgen(self):
        rng = self.rng
        g = self.name('g')
        if self.allow_one_step and rng.random() < 0.5 and 'one_step' not in [x[1] for x in self.gens]:
            self.ops.append({'op': 'newgen', 'g': g, 'kind': 'one_step'})
            self.gens.append((g, 'one_step'))
            return
        kind = rng.choice(['Min', 'Max'])
        self.ops.append({'op': 'newgen', 'g': g, 'kind': kind, 'opts': _draw_gen_opts(rng)})
        self.gens.append((g, kind))

    def add_new(self):
        rng = self.rng
        cls = rng.choice(self.k['classes'])
        fun, fargs = self.fun_for(cls)
        o = self.name('o')
        op = {'op': 'new', 'o': o, 'cls': cls, 'fun': fun, 'method': self.method(cls)}
        if cls not in HESS:
            if rng.random() < 0.7:
                op['n'] = rng.choice(self.k['ns']) if cls == 'Derivative' else rng.choice([1, 1, 2])
        if cls != 'Hessian' or rng.random() < 0.3:
            if rng.random() < 0.7:
                op['order'] = rng.choice(self.k['orders'])
        r = rng.random()
        if self.gens and r < self.k['p_sharegen']:
            op['step'] = {'gen': rng.choice(self.gens)[0]}
        elif r < self.k['p_sharegen'] + 0.2:
            op['step'] = rng.choice([0.01, 1e-3, 0.1, 1e-5, 0.25])
            op['opts'] = _draw_obj_opts(rng)
        else:
            op['step'] = None
            op['opts'] = _draw_obj_opts(rng)
        if rng.random() < self.k['p_rt']:
            op['rt'] = rng.choice(self.k['rts'])
        op['full'] = rng.random() < 0.7
        depth = 0
        if fun['name'] == 'nested':
            depth = self.objs[fun['inner']]['depth'] + 1
        self.ops.append(op)
        self.objs[o] = {'cls': cls, 'args': fargs, 'live': True, 'depth': depth, 'new': op}
        self.changed[o] = {}
        return o

    def live(self):
        return sorted(n for n, o in self.objs.items() if o['live'])

    def add_call(self, o=None, allow_fault=True):
        rng = self.rng
        o = o or rng.choice(self.live())
        info = self.objs[o]
        op = {'op': 'call', 'o': o, 'x': self.x_for(info['cls'])}
        if info['args'] is not None:
            nm = info['new']['fun']['name']
            a = rng.choice(funpool.DEFAULT_ARGS[nm]) if rng.random() < 0.5 else info['args']
            op['args'], op['kwds'] = copy.deepcopy(a)
        if allow_fault and rng.random() < self.k['p_fault']:
            if rng.random() < self.k['p_abort']:
                op['fault'] = {'kind': 'abort', 'at': int(2 ** rng.uniform(0, 12.0))}
            else:
                op['fault'] = {'kind': 'f_raise', 'at': rng.choice([1, 1, 2, 3, 4, 5, 8, 13, 30]),
                               'exc': rng.choice(['ValueError', 'FloatingPointError',
                                                  'ZeroDivisionError', 'SimInterrupt'])}
        self.ops.append(op)
        return op

    def add_set(self):
        rng = self.rng
        o = rng.choice(self.live())
        info = self.objs[o]
        attr = rng.choice(['n', 'order', 'method', 'method'])
        if attr == 'n':
            val = rng.choice(self.k['ns'])
        elif attr == 'order':
            val = rng.choice(self.k['orders'])
        else:
            val = self.method(info['cls'])
        self.ops.append({'op': 'set', 'o': o, 'attr': attr, 'value': val})
        self.changed[o][attr] = True

    def add_restore(self):
        cands = [o for o in self.live() if self.changed.get(o)]
        if not cands:
            return False
        o = self.rng.choice(cands)
        new = self.objs[o]['new']
        for attr in sorted(self.changed[o]):
            if attr == 'n':
                val = new.get('n', 2 if new['cls'] in HESS else 1)
            elif attr == 'order':
                if new['cls'] == 'Hessian':
                    val = new.get('order', 2)
                else:
                    val = new.get('order', 2)
            else:
                val = new['method']
            self.ops.append({'op': 'set', 'o': o, 'attr': attr, 'value': val, 'restore': True})
        self.changed[o] = {}
        return True

    def _rule_req(self):
        rng = self.rng
        req = {'op': 'rule', 'rcls': rng.choice(['LogRule', 'LogRule', 'LogJacobianRule',
                                                   'LogHessdiagRule']),
               'method': rng.choice(self.k['methods']), 'order': rng.choice(self.k['orders']),
               'step_ratio': rng.choice([2.0, 1.6, 4.0, 3, 2.0000000000000004])}
        if req['rcls'] != 'LogHessdiagRule':
            req['n'] = rng.choice(self.k['ns'])
        return req

    def add_cache(self):
        rng = self.rng
        kind = rng.choice(['clear', 'evict', 'prewarm', 'prewarm', 'flood'])
        if kind == 'flood' and rng.random() < 0.6:
            kind = 'prewarm'
        if kind == 'flood':
            # memory pressure: many distinct legitimate rule requests (other users of the process)
            n = rng.randint(40, 150)
            base = rng.choice([1.5, 2.5, 3.5])
            reqs = []
            for i in range(n):
                r = self._rule_req()
                r['step_ratio'] = base + 0.01 * i
                reqs.append(r)
            self.ops.append({'op': 'cache', 'kind': 'prewarm', 'flood': True, 'reqs': reqs})
        elif kind == 'clear':
            self.ops.append({'op': 'cache', 'kind': 'clear'})
        elif kind == 'evict':
            self.ops.append({'op': 'cache', 'kind': 'evict',
                             'fracs': [rng.random() for _ in range(rng.randint(1, 3))]})
        else:
            self.ops.append({'op': 'cache', 'kind': 'prewarm',
                             'reqs': [self._rule_req() for _ in range(rng.randint(1, 5))]})

    def add_ddiff(self):
        rng = self.rng
        x = _xspec_vector(rng, self.k['maxdim'])
        k = len(x['v']) if isinstance(x['v'], list) else 1
        v = {'t': 'arr', 'v': [rng.choice([1.0, 2.0, -1.0, 0.5]) for _ in range(k)], 'shape': [k],
             'dtype': 'float64'}
        opts = {}
        if rng.random() < 0.6:
            opts['method'] = rng.choice(self.k['methods'])
        if rng.random() < 0.4:
            opts['order'] = rng.choice(self.k['orders'])
        if rng.random() < 0.3:
            opts['n'] = rng.choice([1, 2, 3])
        if self.gens and rng.random() < self.k['p_sharegen']:
            opts['step'] = {'gen': rng.choice(self.gens)[0]}
        opts['full_output'] = rng.random() < 0.6
        fun = {'name': rng.choice(self.k['vs'])}
        op = {'op': 'ddiff', 'fun': fun, 'x': x, 'v': v, 'opts': opts}
        self.ops.append(op)

    def add_steps(self):
        rng = self.rng
        g = rng.choice(self.gens)[0]
        op = {'op': 'steps', 'g': g, 'x': _xspec_elementwise(rng),
              'method': rng.choice(self.k['methods']), 'n': rng.choice(self.k['ns']),
              'order': rng.choice(self.k['orders'])}
        if rng.random() < 0.35:
            op['partial'] = rng.choice([1, 1, 2])
        self.ops.append(op)

    def add_limit(self):
        """A Limit / Residue used for a short history of its own: one to three evaluations (points
        with and without a singularity, via __call__ or .limit), attribute changes and restores in
        between, optionally on a step generator shared with the derivative objects of the task."""
        rng = self.rng
        residue = rng.random() < 0.3
        if residue:
            name = rng.choice(['pole1', 'pole2', 'pole_mixed'])
            po = 2 if name == 'pole2' else 1
            order = po + rng.choice([1, 2, 3])
            op = {'op': 'limit', 'cls': 'Residue', 'fun': {'name': name}, 'pole_order': po,
                  'order': order}
        else:
            name = rng.choice(['sinc', 'cosq', 'expq', 'xsin3', 'bern', 'exp', 'runge'])
            order = rng.choice([2, 3, 4, 6])
            op = {'op': 'limit', 'cls': 'Limit', 'fun': {'name': name}, 'order': order}
        op['method'] = rng.choice(['above', 'below'])
        op['full'] = rng.random() < 0.8
        r = rng.random()
        if self.gens and r < max(self.k['p_sharegen'], 0.35):
            op['step'] = {'gen': rng.choice(self.gens)[0]}
        elif r < 0.55:
            op['step'] = rng.choice([0.01, 1e-3, 0.1, 0.25])
        else:
            op['step'] = None
        if not isinstance(op['step'], dict) and rng.random() < 0.3:
            op['gopts'] = rng.choice([{'path': 'spiral'}, {'step_ratio': 2.0}, {'num_steps': 9},
                                      {'step_ratio': 3.0}, {'offset': 1}, {'scale': 1.5}])

        def point():
            t = rng.random()
            if t < 0.45:
                return {'t': 'float', 'v': 0.0}
            if t < 0.7:
                k = rng.randint(2, 4)
                return {'t': 'arr', 'v': [rng.choice([0.0, 0.0, 0.5, -1.0, 1e-3]) for _ in range(k)],
                        'shape': [k], 'dtype': 'float64'}
            return {'t': 'float', 'v': rng.choice(X_SCALARS)}

        def evaluation():
            return {'x': point(), 'via': 'limit' if (residue or rng.random() < 0.3) else 'call'}
        steps = [evaluation()]
        for _ in range(rng.choice([0, 0, 1, 1, 2])):
            if rng.random() < 0.5:
                attr = rng.choice(['method', 'order'])
                if attr == 'method':
                    cur, val = op['method'], ('below' if op['method'] == 'above' else 'above')
                else:
                    cur = op['order']
                    val = cur + rng.choice([1, 2])
                steps.append({'set': attr, 'value': val})
                if rng.random() < 0.5:
                    steps.append(evaluation())
                if rng.random() < 0.7:
                    steps.append({'set': attr, 'value': cur})       # ... and restore
            steps.append(evaluation())
        op['steps'] = steps
        if rng.random() < self.k['p_fault'] * 0.5:
            op['fault'] = {'kind': 'f_raise', 'at': rng.choice([1, 2, 3, 5, 8, 13]),
                           'exc': rng.choice(['ValueError', 'ZeroDivisionError'])}
        self.ops.append(op)
        return op

    def add_dropgc(self):
        cands = [o for o in self.live()
                 if not any(x['new']['fun'].get('inner') == o for x in self.objs.values())]
        if not cands or (len(cands) < 2 and self.rng.random() < 0.5):
            return False
        rng = self.rng
        o = rng.choice(cands)
        old = self.objs[o]
        old['live'] = False
        self.ops.append({'op': 'dropgc', 'o': o})
        if rng.random() < 0.7:
            # respawn: a new object of the same class and (method, n, order) with another step
            # configuration, called where the dead one was called (address reuse after gc)
            new = copy.deepcopy(old['new'])
            name = self.name('o')
            new['o'] = name
            r = rng.random()
            if r < 0.4:
                new['step'] = rng.choice([0.01, 1e-3, 0.1, 0.25])
                new['opts'] = {}
            elif r < 0.7:
                new['step'] = None
                new['opts'] = _draw_obj_opts(rng)
            elif self.gens:
                new['step'] = {'gen': rng.choice(self.gens)[0]}
                new.pop('opts', None)
            if rng.random() < 0.5 and new['fun']['name'] in funpool.SS:
                new['fun'] = {'name': rng.choice(self.k['ss'])}
            self.ops.append(new)
            self.objs[name] = {'cls': new['cls'], 'args': old['args'], 'live': True,
                               'depth': old['depth'], 'new': new}
            self.changed[name] = {}
            last = [c for c in self.ops if c['op'] == 'call' and c['o'] == o]
            call = {'op': 'call', 'o': name,
                    'x': copy.deepcopy(last[-1]['x']) if last else self.x_for(new['cls'])}
            if old['args'] is not None:
                call['args'], call['kwds'] = copy.deepcopy(old['args'])
            self.ops.append(call)
        return True

    def add_sweep(self):
        """A parameter sweep: the configuration of a live object repeated with ONE integer parameter
        stepped (richardson_terms, order, n or num_steps), each variant called at the same point -
        the usage that makes caches grow entry by entry."""
        rng = self.rng
        cands = [o for o in self.live() if self.objs[o]['new']['fun']['name'] != 'nested']
        if not cands:
            return False
        base = self.objs[rng.choice(cands)]
        tmpl = base['new']
        param = rng.choice(['rt', 'rt', 'order', 'n', 'num_steps'])
        if param == 'n' and tmpl['cls'] in HESS:
            param = 'rt'
        start = {'rt': tmpl.get('rt') or 2, 'order': tmpl.get('order', 2), 'n': tmpl.get('n', 1),
                 'num_steps': (tmpl.get('opts') or {}).get('num_steps', 5)}[param]
        step = rng.choice([1, 1, 2, -1])
        x = self.x_for(tmpl['cls'])
        for j in range(1, rng.randint(2, 3) + 1):
            if len(self.live()) >= self.k['maxobjs'] + 2:
                break
            val = max(1, start + j * step)
            new = copy.deepcopy(tmpl)
            name = self.name('o')
            new['o'] = name
            if param == 'num_steps':
                if isinstance(new.get('step'), dict):
                    continue
                new.setdefault('opts', {})['num_steps'] = val
            else:
                new[param] = val
            self.ops.append(new)
            self.objs[name] = {'cls': new['cls'], 'args': base['args'], 'live': True,
                               'depth': base['depth'], 'new': new}
            self.changed[name] = {}
            call = {'op': 'call', 'o': name, 'x': copy.deepcopy(x)}
            if base['args'] is not None:
                call['args'], call['kwds'] = copy.deepcopy(base['args'])
            self.ops.append(call)
        return True

    # -- the history ------------------------------------------------------------------------
    def build(self, length):
        rng, k = self.rng, self.k
        if rng.random() < k['p_sharegen']:
            self.add_newgen()
        self.add_new()
        w = k['weights']
        kinds = sorted(w)
        guard = 0
        while len(self.ops) < length and guard < 200:
            guard += 1
            kind = rng.choices(kinds, weights=[w[x] for x in kinds])[0]
            if not self.live():
                self.add_new()
            if kind == 'newgen':
                if len(self.gens) < 2:
                    self.add_newgen()
            elif kind == 'new':
                if len(self.live()) < k['maxobjs']:
                    self.add_new()
            elif kind == 'call':
                op = self.add_call()
                if op.get('fault') and rng.random() < 0.8:
                    self.add_call(o=op['o'], allow_fault=False)
            elif kind == 'set':
                self.add_set()
            elif kind == 'restore':
                self.add_restore()
            elif kind == 'cache':
                self.add_cache()
                # carry on working after the cache was disturbed: entries are re-derived, and a
                # parameter sweep asks for keys the process has not seen yet
                if self.live() and rng.random() < 0.7:
                    for _ in range(rng.randint(1, 2)):
                        self.add_call(allow_fault=False)
                    if rng.random() < 0.4:
                        self.add_sweep()
            elif kind == 'ddiff':
                self.add_ddiff()
            elif kind == 'rule':
                self.ops.append(self._rule_req())
            elif kind == 'steps':
                if self.gens:
                    self.add_steps()
            elif kind == 'limit':
                self.add_limit()
            elif kind == 'dropgc':
                self.add_dropgc()
            elif kind == 'sweep':
                self.add_sweep()
        if not self.live():
            self.add_new()
        if self.ops[-1]['op'] not in ('call', 'ddiff', 'limit'):
            if rng.random() < 0.5 and any(self.changed[o] for o in self.live()):
                self.add_restore()
            self.add_call(allow_fault=False)
        return self.ops


def _knobs(rng, mode):
    """Swarm knobs: every run gets its own small pools and operation mix."""
    methods = list(REAL)
    r = rng.random()
    if r < 0.35:
        methods = rng.sample(list(REAL), rng.randint(1, 3))
    elif r < 0.65:
        methods = list(REAL) + list(CPLX)
    elif r < 0.8:
        methods = rng.sample(list(REAL) + list(CPLX), rng.randint(2, 4))
    classes = rng.choice([
        ['Derivative'], ['Derivative'], ['Derivative', 'Gradient', 'Jacobian'],
        list(CLASSES), list(CLASSES), ['Hessian', 'Hessdiag'], ['Gradient', 'Jacobian', 'Hessian'],
        ['Derivative', 'Hessdiag']])
    ns = rng.choice([[1, 2], [1, 2, 3, 4], [0, 1, 2], [1, 2, 3, 4, 5, 6], [1, 3], [2, 4], [1], [0, 1],
                     [0, 1, 2, 3]])
    orders = rng.choice([[2, 4], [1, 2, 3, 4], [2, 4, 6, 8], [2], [1, 2, 3, 4, 5, 6, 7, 8], [2, 6]])
    weights = {'newgen': 0.5, 'new': 2.0, 'call': 5.0, 'set': 1.5, 'restore': 1.0, 'cache': 1.0,
               'ddiff': 0.5, 'rule': 0.5, 'steps': 0.5, 'limit': 0.6, 'dropgc': 0.3, 'sweep': 0.6}
    for key in list(weights):
        u = rng.random()
        if u < 0.25 and key != 'call':
            weights[key] = 0.0                       # swarm: switch whole op kinds off
        elif u > 0.85:
            weights[key] *= 3.0
    ss = rng.sample(sorted(funpool.SS), rng.randint(2, 5))
    vs = rng.sample(sorted(funpool.VS), rng.randint(1, 3))
    vv = rng.sample(sorted(funpool.VV), rng.randint(1, 3))
    return {
        'methods': methods, 'classes': classes, 'ns': ns, 'orders': orders, 'weights': weights,
        'ss': ss, 'vs': vs, 'vv': vv,
        'p_nested': rng.choice([0.0, 0.15, 0.3, 0.5]),
        'rts': rng.choice([[1, 2, 3, 4], [3, 4], [2, 3], [1, 2, 3, 4, 5], [4], [3, 5]]),
        'p_rt': rng.choice([0.0, 0.25, 0.25, 0.6, 0.9]),
        'p_sharegen': rng.choice([0.0, 0.2, 0.5, 0.8]),
        'p_xreuse': rng.choice([0.2, 0.6, 0.9]),
        'p_fault': rng.choice([0.0, 0.0, 0.1, 0.25]),
        'p_abort': rng.choice([0.0, 0.3, 0.7]),
        'maxobjs': rng.choice([1, 2, 3, 4]),
        'maxdim': rng.choice([1, 2, 3]) if mode != 'seq' else rng.choice([1, 2, 3, 4]),
    }


def _rename(v, tid):
    return 't%d.%s' % (tid, v.split('.', 1)[1]) if isinstance(v, str) and v.startswith('t0.') else v


def _clone_ops(rng, ops, tid, knobs, shift=None):
    """Renamed copy of caller 0's history.  With `shift` = (param, delta) ONE integer parameter of
    every object is shifted by tid*delta ("the same workload with richardson_terms / order / n one
    higher per caller"); otherwise a few random mutations are applied."""
    out = []
    for op in ops:
        c = copy.deepcopy(op)
        for key in ('o', 'g'):
            if key in c:
                c[key] = _rename(c[key], tid)
        if isinstance(c.get('step'), dict):
            c['step']['gen'] = _rename(c['step']['gen'], tid)
        if isinstance(c.get('opts', {}).get('step'), dict):
            c['opts']['step']['gen'] = _rename(c['opts']['step']['gen'], tid)
        if c['op'] == 'new':
            if c['fun'].get('inner'):
                c['fun']['inner'] = _rename(c['fun']['inner'], tid)
            if shift is not None:
                param, delta = shift
                base = {'rt': c.get('rt') or 2, 'order': c.get('order', 2), 'n': c.get('n', 1)}[param]
                if not (param == 'n' and c['cls'] in HESS):
                    c[param] = max(1, base + tid * delta)
            else:
                r = rng.random()
                if r < 0.3:
                    c['rt'] = rng.choice(knobs['rts'] + [None])
                elif r < 0.4 and 'order' in c:
                    c['order'] = rng.choice(knobs['orders'])
                elif r < 0.5 and c['fun']['name'] in funpool.SS:
                    c['fun'] = {'name': rng.choice(knobs['ss'])}
        elif c['op'] == 'call' and rng.random() < 0.3:
            x = c['x']
            if x['t'] == 'float':
                c['x'] = dict(x, v=rng.choice(X_SCALARS))
            elif x['t'] in ('list', 'arr') and x.get('dtype', 'float64') == 'float64':
                c['x'] = dict(x, v=[rng.choice(X_SCALARS) for _ in x['v']])
        if c['op'] == 'newgen' and c.get('kind') == 'one_step':
            c['kind'] = 'Min'
            c['opts'] = {'num_steps': 1}
        out.append(c)
    return out


def generate(run_seed, mode='seq', ntasks=None):
    """Pure function of run_seed: the plan of one simulated run (JSON-able)."""
    rng = random.Random(run_seed)
    knobs = _knobs(rng, mode)
    if mode == 'seq':
        nt = 1
    elif mode == 'thr16':
        nt = 16
    else:
        nt = ntasks or rng.choice([2, 2, 2, 3, 3, 4, 4, 6, 8, 16])
    one_step_task = rng.randrange(nt) if rng.random() < 0.2 else -1
    tasks = []
    clone = mode != 'seq' and rng.random() < 0.35
    shift = None
    if clone and rng.random() < 0.5:
        shift = (rng.choice(['rt', 'rt', 'order', 'n']), rng.choice([1, 1, 2, -1]))
    for tid in range(nt):
        if clone and tid > 0:
            # "threads doing the same thing": a renamed copy of caller 0's history with small
            # mutations - maximises simultaneous use of the same shared keys and code paths
            tasks.append({'ops': _clone_ops(rng, tasks[0]['ops'], tid, knobs, shift)})
            continue
        tg = _TaskGen(rng, tid, knobs, allow_one_step=(tid == one_step_task and not clone))
        if mode == 'seq':
            length = rng.randint(1, 12)
        else:
            length = rng.randint(2, 8 if nt <= 4 else 5)
        tasks.append({'ops': tg.build(length)})
    plan = {'property': 'C09', 'mode': mode, 'tasks': tasks, 'trace': nt > 1}
    if nt > 1:
        plan['sched'] = {
            'mode': 'explore', 'seed': rng.getrandbits(48),
            'mean_gap': rng.choice([5, 50, 500, 5000]),
            'budget': rng.choice([0, 2, 4, 8, 16, 32, 64]),
            'bias': rng.choice([0.0, 0.05, 0.3, 0.8]),
            'probe': rng.choice([0.0, 0.5, 1.0]),
            'alias': rng.random() < 0.4,
            'targets': None,
            'pick': rng.choice(['uniform', 'uniform', 'prio']),
            'prio': [rng.random() for _ in range(nt)],
        }
    if nt > 1:
        # PCT-style targets: ordinals of hot yield points, drawn over the estimated number of hot
        # points of this plan (about 70 per judged call) so that every one of them is equally likely
        ncalls = sum(1 for t in tasks for o in t['ops'] if o['op'] in ('call', 'ddiff', 'limit'))
        hot_est = max(30, int(70 * ncalls * rng.choice([0.5, 1.0, 1.0, 2.0])))
        plan['sched']['targets'] = sorted(set(rng.randint(1, hot_est)
                                              for _ in range(rng.choice([0, 1, 2, 4, 8, 16]))))
    plan['knobs'] = {k: knobs[k] for k in ('methods', 'classes', 'ns', 'orders', 'p_fault',
                                            'p_sharegen', 'p_nested')}
    return plan


# --------------------------------------------------------------------------- plan-level model

def _find_new(ops, upto, name):
    for i in range(upto):
        op = ops[i]
        if op['op'] == 'new' and op['o'] == name:
            return i, op
    return None, None


def _closure(ops, upto, roots, gen_roots=()):
    """Names of objects / generators needed to rebuild `roots` as of position `upto`."""
    need_o, need_g = [], list(gen_roots)
    stack = list(roots)
    while stack:
        o = stack.pop()
        if o in need_o:
            continue
        _, new = _find_new(ops, upto, o)
        if new is None:
            return None, None
        need_o.append(o)
        if isinstance(new.get('step'), dict):
            need_g.append(new['step']['gen'])
        if new['fun']['name'] == 'nested':
            stack.append(new['fun']['inner'])
    return need_o, need_g


def current_config(new, sets):
    """(method, n, order) an object has after `sets`, per the documented setter semantics."""
    cls = new['cls']
    cur = {'method': new['method']}
    if 'n' in new:
        cur['n'] = new['n']
    if 'order' in new:
        cur['order'] = new['order']
    for s in sets:
        a = s['attr']
        if a == 'n' and cls in HESS:
            continue                    # n is fixed at 2 for Hessdiag / Hessian
        if a == 'order' and cls == 'Hessian':
            continue                    # Hessian's order is dictated by the method
        cur[a] = s['value']
    m0, m1 = new['method'], cur['method']
    valid = (m0 == m1) or (m0 in REAL and m1 in REAL)
    return cur, valid


def miniplans(task_ops, idx):
    """Fresh-state reference requests for the judged op at task_ops[idx].

    Returns (replay_plan, norm_plan_or_None).
    """
    op = task_ops[idx]
    judged = {k: v for k, v in op.items() if k != 'fault'}
    if op['op'] == 'ddiff':
        gens = []
        st = op.get('opts', {}).get('step')
        if isinstance(st, dict):
            gens.append(st['gen'])
        pre = [copy.deepcopy(o) for o in task_ops[:idx] if o['op'] == 'newgen' and o['g'] in gens]
        plan = {'property': 'C09', 'tasks': [{'ops': pre + [judged]}], 'trace': False}
        return plan, None
    if op['op'] == 'limit':
        gens = [op['step']['gen']] if isinstance(op.get('step'), dict) else []
        pre = [copy.deepcopy(o) for o in task_ops[:idx] if o['op'] == 'newgen' and o['g'] in gens]
        plan = {'property': 'C09', 'tasks': [{'ops': pre + [judged]}], 'trace': False}
        fresh = dict(copy.deepcopy(judged), fresh_each=True)
        norm = {'property': 'C09', 'tasks': [{'ops': copy.deepcopy(pre) + [fresh]}], 'trace': False}
        return plan, norm
    need_o, need_g = _closure(task_ops, idx, [op['o']])
    if need_o is None:
        return None, None
    replay, norm = [], []
    norm_ok = True
    for o in task_ops[:idx]:
        if o['op'] == 'newgen' and o['g'] in need_g:
            replay.append(copy.deepcopy(o))
            norm.append(copy.deepcopy(o))
    for i, o in enumerate(task_ops[:idx]):
        if o['op'] == 'new' and o['o'] in need_o:
            sets = [s for s in task_ops[i + 1:idx] if s['op'] == 'set' and s['o'] == o['o']]
            replay.append(copy.deepcopy(o))
            replay.extend({k: v for k, v in s.items() if k != 'restore'} for s in sets)
            cur, valid = current_config(o, sets)
            norm_ok = norm_ok and valid
            n_op = copy.deepcopy(o)
            n_op.update(cur)
            norm.append(n_op)
    # keep constructor order of the replay reference identical to the history
    replay_plan = {'property': 'C09', 'tasks': [{'ops': replay + [judged]}], 'trace': False}
    norm_plan = None
    if norm_ok:
        norm_plan = {'property': 'C09', 'tasks': [{'ops': norm + [judged]}], 'trace': False}
    return replay_plan, norm_plan


def _abbrev_plan(plan):
    """Copy of a plan for the evidence file (long prewarm/flood request lists are cut)."""
    p = copy.deepcopy(plan)
    for t in p['tasks']:
        for o in t['ops']:
            if o['op'] == 'cache' and len(o.get('reqs', [])) > 3:
                n = len(o['reqs'])
                o['reqs'] = o['reqs'][:3] + ['... %d more rule requests' % (n - 3)]
    return p


def is_nontrivial(task_ops, idx, sched_summary, ntasks):
    """A judged call is non-trivial when something able to influence it preceded it."""
    if ntasks > 1 and sched_summary.get('switches', 0) > 0:
        return True
    for o in task_ops[:idx]:
        if o['op'] in ('call', 'set', 'cache', 'ddiff', 'rule', 'steps', 'limit', 'dropgc'):
            return True
    return False


def plan_shape(plan):
    """Abstract shape of a plan: op kinds + classes + methods, used for distinctness counting."""
    shape = []
    for t in plan['tasks']:
        row = []
        for o in t['ops']:
            k = o['op']
            if k == 'new':
                row.append('new:%s:%s:%s:%s:%s' % (o['cls'], o['method'], o.get('n'), o.get('order'),
                                                 'g' if isinstance(o.get('step'), dict) else
                                                 ('s' if o.get('step') is not None else '-')))
            elif k == 'set':
                row.append('set:%s:%s' % (o['attr'], o['value']))
            elif k == 'call':
                f = o.get('fault')
                row.append('call' + (':' + f['kind'] if f else ''))
            elif k == 'cache':
                row.append('cache:' + ('flood' if o.get('flood') else o['kind']))
            else:
                row.append(k)
        shape.append(row)
    return shape


# --------------------------------------------------------------------------- execution + oracle

ID = 'C09'


def execute(plan, sched_spec=None):
    from sim.executor import execute_plan
    return execute_plan(plan, sched_spec)


def eval_ref(miniplan):
    """Runs in a fork of the pristine parent: fresh interpreter state, unmodified library."""
    from sim.executor import execute_plan
    res = execute_plan(miniplan, None, light=True)
    last = res['obs'][-1]
    if 'rec' in last and not last.get('skipped'):
        return last['rec']
    return ('refskipped', tuple(o.get('rec') for o in res['obs'] if o.get('opfail')))


def make_refs():
    from sim.driver import RefCache
    return RefCache(eval_ref)


def stop_on_violation(viols):
    return True


def judge(plan, result, refs):
    from sim.common import first_difference, short_hash
    ntasks = len(plan['tasks'])
    sched = result['sched']
    stats = {
        'points': sched['points'], 'switches': sched['switches'],
        'lock_blocks': sched.get('lock_blocks', 0), 'hot_points': sched.get('hot_points', 0),
        'probe_switches': sched.get('probe_switches', 0),
        'kind_counts': dict(sched['kind_counts']),
        'faults_fired': dict(result['faults']),
        'cache': dict(result.get('cache', {})),
        'probe_switch_in_dea3': sched['probe_switch_in_dea3'],
        'probe_switch_in_miss': sched['probe_switch_in_miss'],
        'warn_filter_leak_runs': 1 if result.get('warn_filter_leak') else 0,
        'capped_runs': 1 if sched['capped'] else 0,
        'compared': 0, 'compared_nontrivial': 0, 'norm_refs': 0, 'replay_refs': 0,
        'faulted_calls': 0, 'skipped_ops': 0, 'ops': 0, 'opfail': 0,
        'runs_by_ntasks': {str(ntasks): 1},
        'max_ntasks': ntasks,
        'cache_seam_missing': 0 if result.get('cache_seam') else 1,
        'states': set(result.get('states', [])),
        'post_fault_compared': 0, 'limit_compared': 0, 'limit_evaluations_compared': 0,
    }
    if sched.get('errors'):
        from sim.common import ForkError
        raise ForkError('task thread crashed: %r' % (sched['errors'],))
    violations = []
    nontrivial_run = False
    faulted_before = {}
    failed_set = set()      # objects with a setter / constructor that raised: the plan-level model of
    #                         their current configuration no longer holds, only ref_replay is used
    opk = stats['op_kinds'] = {}
    for t in plan['tasks']:
        for o in t['ops']:
            k = o['op']
            if k == 'set':
                k = 'restore' if o.get('restore') else 'set:' + o['attr']
            elif k == 'new':
                k = 'new:' + o['cls']
                if isinstance(o.get('step'), dict):
                    opk['new:with_shared_generator'] = opk.get('new:with_shared_generator', 0) + 1
                if o['fun']['name'] == 'nested':
                    opk['new:reentrant_function'] = opk.get('new:reentrant_function', 0) + 1
            elif k == 'cache':
                k = 'cache:' + ('flood' if o.get('flood') else o['kind'])
            elif k == 'newgen':
                k = 'newgen:' + o['kind']
            opk[k] = opk.get(k, 0) + 1
    for ob in result['obs']:
        stats['ops'] += 1
        if ob.get('skipped'):
            stats['skipped_ops'] += 1
            continue
        if ob.get('opfail'):
            stats['opfail'] += 1
            fop = plan['tasks'][ob['task']]['ops'][ob['idx']]
            if fop['op'] in ('set', 'new') and 'o' in fop:
                failed_set.add(fop['o'])
        if ob['op'] not in ('call', 'ddiff', 'limit') or 'rec' not in ob or ob.get('diag'):
            continue
        tid, idx = ob['task'], ob['idx']
        ops = plan['tasks'][tid]['ops']
        if ob.get('faulted'):
            stats['faulted_calls'] += 1
            faulted_before[tid] = True
            continue
        replay_plan, norm_plan = miniplans(ops, idx)
        if replay_plan is None:
            continue
        if norm_plan is not None and failed_set:
            need_o, _ = _closure(ops, idx, [ops[idx]['o']]) if ops[idx]['op'] == 'call' else ([], [])
            if any(o in failed_set for o in (need_o or [])):
                norm_plan = None
        stats['compared'] += 1
        if faulted_before.get(tid):
            stats['post_fault_compared'] += 1
        if ops[idx]['op'] == 'limit':
            stats['limit_compared'] += 1
            stats['limit_evaluations_compared'] += sum(1 for st in ops[idx]['steps'] if 'x' in st)
        nt = is_nontrivial(ops, idx, sched, ntasks)
        if nt:
            stats['compared_nontrivial'] += 1
            nontrivial_run = True
        ref_r = refs.get(replay_plan)
        stats['replay_refs'] += 1
        if stats['compared'] == 1:
            stats['refsample'] = [replay_plan]
        kind = None
        ref = None
        if ob['rec'] != ref_r:
            kind, ref, ref_plan = 'history_leak', ref_r, replay_plan
        elif norm_plan is not None:
            ref_n = refs.get(norm_plan)
            stats['norm_refs'] += 1
            if ob['rec'] != ref_n:
                kind, ref, ref_plan = 'config_mismatch', ref_n, norm_plan
        if kind:
            op = ops[idx]
            cls = op.get('cls', 'Limit') if op['op'] == 'limit' else 'directionaldiff'
            if op['op'] == 'call':
                _, new = _find_new(ops, idx, op['o'])
                cls = new['cls']
            violations.append({
                'property': ID, 'kind': kind, 'cls': cls, 'task': tid, 'idx': idx,
                'diff': first_difference(ob['rec'], ref), 'observed': ob['rec'], 'reference': ref,
                'reference_plan': ref_plan,
            })
    if nontrivial_run:
        stats['shapes'] = {short_hash([plan_shape(plan), result.get('conflict_sig')])}
        stats['sample_plans'] = [{'plan': _abbrev_plan(plan), 'schedule': sched['segments'][:40]}]
    else:
        stats['shapes'] = set()
    stats['conflict_sigs'] = {result.get('conflict_sig')} if ntasks > 1 else set()
    return violations, stats


# --------------------------------------------------------------------------- minimisation helpers

def simplify_op(op):
    """Candidate simpler versions of one operation (tried one at a time by the shrinker)."""
    k = op['op']
    if k == 'new':
        for key in list(op.get('opts', {})):
            c = copy.deepcopy(op)
            del c['opts'][key]
            yield c
        if op.get('rt') is not None:
            c = copy.deepcopy(op)
            c['rt'] = None
            yield c
        if op.get('step') is not None and not isinstance(op.get('step'), dict):
            c = copy.deepcopy(op)
            c['step'] = None
            yield c
        if op['fun']['name'] not in ('exp', 'nested', 'sumsq', 'square') and 'args' not in op:
            c = copy.deepcopy(op)
            c['fun'] = {'name': {'Derivative': 'exp', 'Jacobian': 'square'}.get(op['cls'], 'sumsq')}
            yield c
    elif k in ('call', 'steps'):
        x = op['x']
        if x['t'] != 'float':
            c = copy.deepcopy(op)
            if x['t'] in ('list', 'arr') and len(x['v']) > 1 and x.get('shape', [0]) == [len(x['v'])]:
                c['x'] = dict(x, v=x['v'][:1], shape=[1]) if x['t'] == 'arr' else dict(x, v=x['v'][:1])
                yield c
    elif k == 'newgen':
        for key in list(op.get('opts', {})):
            c = copy.deepcopy(op)
            del c['opts'][key]
            yield c
    elif k == 'cache' and op['kind'] == 'prewarm' and len(op['reqs']) > 1:
        for i in range(len(op['reqs'])):
            c = copy.deepcopy(op)
            del c['reqs'][i]
            yield c


def violation_class(v):
    return (v['kind'], v['cls'])


# --------------------------------------------------------------------------- check interface

def assert_pristine():
    """The coordinator must never have called into the library (it is the fresh-state template)."""
    from numdifftools import finite_difference, step_generators
    cache = getattr(finite_difference, 'FD_RULES', None)
    if isinstance(cache, dict) and len(cache) != 0:
        raise RuntimeError('parent process is not pristine: FD_RULES is populated')
    st = getattr(getattr(step_generators, 'one_step', None), '_state', None)
    if st is not None and tuple(st[1:]) != ('forward', 1, 2):
        raise RuntimeError('parent process is not pristine: one_step was used')


def phases(tier):
    if tier == 'thorough':
        return [('seq', 0.4), ('thr', 0.45), ('thr16', 0.15)]
    return [('seq', 0.5), ('thr', 0.5)]


def determinism_count(tier):
    return 12 if tier == 'quick' else 100


def match_known(viol, known):
    return None


def evidence(tier, seed, by_mode, det, n_viol, known_hits, errors, wall):
    from sim.common import source_hash
    tot_runs = sum(s.get('runs', 0) + s.get('directed_runs', 0) for s in by_mode.values())
    shapes = set()
    states = set()
    sigs = set()
    for s in by_mode.values():
        shapes |= s.get('shapes', set())
        states |= s.get('states', set())
        sigs |= s.get('conflict_sigs', set())
    samples = []
    for m, s in by_mode.items():
        for sp in s.get('sample_plans', [])[:2]:
            samples.append({'mode': m, 'tasks': sp['plan']['tasks'],
                            'sched': sp['plan'].get('sched'), 'schedule_segments': sp['schedule']})
    faults = {}
    kinds = {}
    for s in by_mode.values():
        for k, v in s.get('faults_fired', {}).items():
            faults[k] = faults.get(k, 0) + v
        for k, v in s.get('kind_counts', {}).items():
            kinds[k] = kinds.get(k, 0) + v
    pre = sum(s.get('switches', 0) for s in by_mode.values())
    faults['preemption'] = pre
    per_mode = {}
    for m, s in by_mode.items():
        w = max(s.get('wall_s', 0.0), 1e-9)
        per_mode[m] = {
            'runs': s.get('runs', 0), 'wall_s': round(w, 2),
            'runs_per_hour': int(s.get('runs', 0) * 3600 / w),
            'compared_calls': s.get('compared', 0),
            'compared_nontrivial_calls': s.get('compared_nontrivial', 0),
            'post_fault_compared_calls': s.get('post_fault_compared', 0),
            'limit_residue_histories_compared': s.get('limit_compared', 0),
            'limit_residue_evaluations_compared': s.get('limit_evaluations_compared', 0),
            'faulted_calls_not_compared': s.get('faulted_calls', 0),
            'reference_evaluations': s.get('ref_evals', 0), 'reference_memo_hits': s.get('ref_memo_hits', 0),
            'yield_points': s.get('points', 0), 'preemptions': s.get('switches', 0),
            'hot_yield_points_after_shared_writes': s.get('hot_points', 0),
            'atomicity_probe_switches': s.get('probe_switches', 0),
            'conflict_directed_runs': s.get('directed_runs', 0),
            'conflict_directed_windows_reached': s.get('directed_windows_reached', 0),
            'conflict_directed_compared_calls': s.get('directed_compared', 0),
            'waits_on_library_locks': s.get('lock_blocks', 0),
            'seeds_per_hour': int(s.get('runs', 0) * 3600 / w),
            'runs_by_ntasks': s.get('runs_by_ntasks', {}), 'max_threads': s.get('max_ntasks', 0),
            'cache': s.get('cache', {}),
            'probe_preempt_while_other_task_between_miss_and_insert': s.get('probe_switch_in_miss', 0),
            'probe_preempt_while_other_task_inside_dea3': s.get('probe_switch_in_dea3', 0),
            'runs_ending_with_leaked_ignore_filter': s.get('warn_filter_leak_runs', 0),
            'runs_capped': s.get('capped_runs', 0),
            'cache_seam_missing_runs': s.get('cache_seam_missing', 0),
            'distinct_conflict_signatures': len(s.get('conflict_sigs', set())),
        }
    return {
        'property_id': ID, 'tier': tier, 'seed': seed, 'level': 'exploration',
        'wall_s': round(wall, 2), 'violations': n_viol,
        'coverage': {
            'evaluations': tot_runs,
            'distinct_nontrivial': len(shapes),
            'rule': ('one evaluation = one simulated run (a fork of a never-used interpreter executing a '
                     'generated history of <=12 ops per caller on 1..16 callers under the seeded '
                     'scheduler); a run is non-trivial when it compared at least one call that was '
                     'preceded in its process by another call, a setter, a cache operation, a shared '
                     'generator use, a fired fault or a pre-emption; distinct = distinct (plan shape, '
                     'shared-state conflict signature) pairs among the non-trivial runs, counted by hashing'),
            'samples': samples[:4],
            'simulated_time': {'unit': 'logical yield points (there is no clock in this code base)',
                               'total': sum(s.get('points', 0) for s in by_mode.values())},
            'fault_kinds_fired': faults,
            'yield_point_kinds': kinds,
            'distinct_states': len(states),
            'operation_mix': {m: s.get('op_kinds', {}) for m, s in by_mode.items()},
            'distinct_interleavings_conflict_signatures': len(sigs),
            'per_mode': per_mode,
            'determinism_selftest': det,
            'known_findings_hit': known_hits,
            'harness_errors': errors[:5],
            'components': {'real': ['numdifftools (working tree)', 'numpy', 'scipy', 'CPython threads'],
                           'stubbed': [],
                           'harness': ['user functions (sim/funpool.py)', 'thread scheduler',
                                       'rule-cache dict seam', 'fault injectors']},
            'source_hash': source_hash(),
        },
        'assumptions': [
            'sys.settrace line events are a deterministic function of the executed path',
            'fork() gives a faithful copy of a never-used interpreter state (the oracle)',
            'numpy/scipy/OpenBLAS single-threaded are bit-reproducible for identical inputs (re-tested by '
            'the determinism self-test on every run)',
            'pre-emption is explored at source-line, cache-access and user-function boundaries only',
        ],
    }
