#!/bin/sh
# usage: tools/vet_seeded.sh <out_dir> <seeded_id>
# Confirms a sub-agent's seeded change in a fresh scratch worktree: demo passes without it, fails
# with it, and the pinned test suite is unchanged.  Copies it to /verif/seeded/<id>/ when all hold.
set -u
OUT="$1"; ID="$2"
WT="/tmp/vet_$ID"
rm -rf "$WT"; git -C /repo worktree prune
git -C /repo worktree add -q --detach "$WT" HEAD || exit 2
cleanup() { git -C /repo worktree remove --force "$WT" 2>/dev/null; rm -rf "$WT"; }
/venv/bin/python "$OUT/demo.py" "$WT/src" >/tmp/vet_${ID}_clean.log 2>&1; RC_CLEAN=$?
if ! git -C "$WT" apply "$OUT/patch.diff"; then echo "PATCH-DOES-NOT-APPLY"; cleanup; exit 2; fi
/venv/bin/python "$OUT/demo.py" "$WT/src" >/tmp/vet_${ID}_patched.log 2>&1; RC_PATCHED=$?
BASE=$(/venv/bin/python /verif/tools/run_baseline_at.py "$WT" 2>&1 | tail -1)
cleanup
echo "$ID: demo clean rc=$RC_CLEAN patched rc=$RC_PATCHED; $BASE"
case "$BASE" in *"missing=0"*) ;; *) echo "REJECT: baseline changed"; exit 1;; esac
[ "$RC_CLEAN" = 0 ] || { echo "REJECT: demo fails on clean tree"; exit 1; }
[ "$RC_PATCHED" != 0 ] || { echo "REJECT: demo passes with patch"; exit 1; }
mkdir -p "/verif/seeded/$ID"
cp "$OUT/patch.diff" "$OUT/demo.py" "$OUT/meta.json" "/verif/seeded/$ID/"
echo "KEPT /verif/seeded/$ID"
