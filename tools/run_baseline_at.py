"""Runs the repository's pinned test suite (guard off - there is no guard to switch) and compares
the set of passing tests with /root/.vp/BASELINE.json stable_pass."""
import json, os, subprocess, sys, tempfile
import xml.etree.ElementTree as ET

base = json.load(open('/root/.vp/BASELINE.json'))
want = set(base['stable_pass'])
with tempfile.TemporaryDirectory() as d:
    xml = os.path.join(d, 'junit.xml')
    cmd = ['/venv/bin/python', '-m', 'pytest', '-ra', '-q', '-p', 'no:cacheprovider', '--timeout=900',
           '--continue-on-collection-errors', '--junitxml=' + xml]
    env = dict(os.environ)
    env.pop('NUMDIFFTOOLS_VERIF', None)
    p = subprocess.run(cmd, cwd=(sys.argv[1] if len(sys.argv) > 1 else '/repo'), env=env, capture_output=True, text=True)
    passed = set()
    for tc in ET.parse(xml).getroot().iter('testcase'):
        if not any(ch.tag in ('failure', 'error', 'skipped') for ch in tc):
            passed.add('%s::%s' % (tc.get('classname'), tc.get('name')))
missing = sorted(want - passed)
print('baseline stable_pass=%d passed_now=%d missing=%d' % (len(want), len(passed), len(missing)))
for m in missing:
    print('  MISSING', m)
sys.exit(1 if missing else 0)
