#!/usr/bin/env python
"""Property check for C14 (streaming epsilon algorithms EpsAlg and Dea).

usage:  python check_property.py <source root> [--seed N] [--quick]

Promises checked, literally:

 P1  EpsAlg, fed one term at a time, returns after every term the entry of Wynn's epsilon
     table of highest even order determined by the terms so far, as long as no table
     difference vanishes.  Reference: the table in exact rational arithmetic
     (fractions.Fraction) of the very same binary64 inputs.  Tolerance: a running forward
     error bound B that is propagated through the exact table (see ExactTable), i.e. the
     tolerance follows the conditioning of every single entry.  Entries whose bound is
     unbounded (difference not larger than its own uncertainty, or not larger than the 1e-60
     threshold below which the implementation substitutes 1e60) are "vanished" and are not
     compared.  A limit plus k exactly representable geometric transients must come out
     *exactly* in the rational table after 2k+1 terms (sanity of the reference) and within
     B in EpsAlg.
 P1b EpsAlg returns a python float for int / numpy scalar input, the same value as for the
     equivalent float input.
 P2  Dea never raises: any length (up to 200), any limexp in 3..60.
 P3  Dea returns finite (result, abserr) for finite input (|terms| <= 1e150).
 P4  Dea agrees on the first three terms with dea3 (1st and 2nd result are the terms itself).
 P5  Outside the convergence / irregular behaviour guards and while the table is not yet
     shifted (#terms <= limexp) the Dea result is an even column entry (order >= 2) of the
     current anti-diagonal of the epsilon table: compared with the exact table and with
     EpsAlg's anti-diagonal.
 P6  From the third term on abserr >= 5 * eps * |result|.
 P7  Instances do not share state: interleaved feeding gives bit-identical output.

exit status 0 iff everything holds.
"""
from __future__ import print_function
import sys
import os
import math
import random
import time
import warnings
from fractions import Fraction

ROOT = sys.argv[1] if len(sys.argv) > 1 else '.'
sys.path.insert(0, os.path.join(ROOT, 'src'))

import numpy as np  # noqa: E402
from numdifftools.extrapolation import EpsAlg, Dea, dea3  # noqa: E402

SEED = 20261003
QUICK = '--quick' in sys.argv
if '--seed' in sys.argv:
    SEED = int(sys.argv[sys.argv.index('--seed') + 1])

EPS = float(np.finfo(float).eps)
U = EPS / 2
INF = float('inf')
FAILURES = []
STATS = dict(epsalg_terms=0, epsalg_checked=0, epsalg_tight=0, epsalg_maxratio=0.0,
             exact_limit_hits=0, epsalg_max_terms=0, dea_calls=0, dea3_checked=0, dea3_bitident=0,
             dea_epsalg_checked=0, dea_top_order=0, floor_checked=0, interleaved=0,
             type_checked=0)


def fail(msg):
    FAILURES.append(msg)
    if len(FAILURES) <= 25:
        print('FAIL:', msg)


def tofloat(frac):
    try:
        return float(frac)
    except OverflowError:
        return INF


class ExactTable(object):
    """Wynn's epsilon table of a sequence of binary64 numbers in exact rational arithmetic.

    With every entry E a bound B is carried such that every floating point evaluation of
        eps[k+1](m) = eps[k-1](m+1) + 1 / (eps[k](m+1) - eps[k](m))
    that commits at most a few roundings per entry (either 'aux1 + 1/delta' or
    '(aux1*delta + 1)/delta') stays within B of E, by induction over the table:
        |d_c - d|   <= B_d := B_a + B_b + u (|d| + B_a + B_b)
        |1/d_c-1/d| <= B_d / (|d| (|d| - B_d))
        B_new        = B_aux1 + B_recip + 4u (|aux1| + B_aux1 + 1/(|d| - B_d))
    B = inf marks entries that are not determined in floating point: the (possible) computed
    difference is not safely larger than max(its own uncertainty, 1e-60) ("vanished").
    """

    def __init__(self):
        self.diag = []      # [(E, B)] by column of the last anti-diagonal
        self.history = []   # per term: the anti-diagonal
        self.dead = 0

    def feed(self, x):
        old = self.diag
        n = len(old)
        new = [(Fraction(x), 0.0)]
        for j in range(1, n + 1):
            aux1, b_aux1 = old[j - 2] if j >= 2 else (Fraction(0), 0.0)
            e_a, b_a = new[j - 1]
            e_b, b_b = old[j - 1]
            if e_a is None or e_b is None or aux1 is None:
                new.append((None, INF))
                continue
            delta = e_a - e_b
            if delta == 0:
                new.append((None, INF))
                continue
            absd = abs(tofloat(delta))
            b_d = (b_a + b_b) * (1 + 4 * U) + U * absd
            if not (b_d < 0.5 * absd) or not (absd - b_d > 1.0000001e-60):
                # exact value is kept (it is still the epsilon table) but it is not checkable
                new.append((aux1 + 1 / delta, INF))
                continue
            e_new = aux1 + 1 / delta
            rmax = 1.0 / (absd - b_d)
            b_recip = b_d / absd * rmax
            a1 = abs(tofloat(aux1)) + b_aux1
            b_new = (b_aux1 + b_recip + 4 * U * (a1 + rmax)) * (1 + 8 * U)
            if not b_new < INF:
                b_new = INF
            new.append((e_new, b_new))
        self.diag = new
        self.history.append(new)
        top = new[n - (n % 2)]
        self.dead = self.dead + 1 if top[1] == INF else 0
        return top


# ------------------------------------------------------------------------------------------
# streams
# ------------------------------------------------------------------------------------------
def geometric(rng, k, length, scale=1.0, dyadic=False, divergent=False):
    if dyadic:
        limit = rng.randint(-8, 8)
        amps = [rng.choice([-3, -2, -1, 1, 2, 3]) for _ in range(k)]
        qs = rng.sample([0.5, -0.5, 0.25, -0.25, 0.125, -0.125], k)
    else:
        limit = rng.choice([0.0, 1.0, rng.uniform(-10, 10), rng.uniform(-1e3, 1e3)])
        amps = [rng.uniform(0.2, 3) * rng.choice([-1, 1]) for _ in range(k)]
        qs = []
        while len(qs) < k:
            q = rng.uniform(0.05, 0.95) * rng.choice([-1, 1])
            if divergent and not qs:
                q = rng.uniform(1.05, 1.6) * rng.choice([-1, 1])
            if all(abs(q - p) > 0.08 for p in qs):
                qs.append(q)
    seq = [scale * (limit + sum(a * q ** n for a, q in zip(amps, qs))) for n in range(length)]
    return seq, scale * limit


def make_streams(rng):
    """Yields (name, sequence, exact_limit_or_None, exact_check)"""
    streams = []
    nrep = 2 if QUICK else 16
    lengths = [1, 2, 3, 4, 5, 7, 9, 12, 17, 25, 40, 77, 130, 200]
    for k in range(1, 5):
        for rep in range(nrep):
            for scale in (1.0, 1e150, 1e-150, 1e-30, 1e40):
                length = rng.choice(lengths)
                seq, lim = geometric(rng, k, max(length, 2 * k + 1), scale)
                streams.append(('geom k=%d scale=%g' % (k, scale), seq, None))
            seq, lim = geometric(rng, k, 2 * k + 4, dyadic=True)
            streams.append(('dyadic geom k=%d' % k, seq, (lim, 2 * k)))
            seq, lim = geometric(rng, k, rng.choice([12, 40, 200]), divergent=True)
            streams.append(('divergent geom k=%d' % k, seq, None))
    for rep in range(nrep):
        for scale in (1.0, 1e150, 1e-150, 1e-300):
            length = rng.choice(lengths)
            streams.append(('uniform scale=%g' % scale,
                            [scale * rng.uniform(-1, 1) for _ in range(length)], None))
            streams.append(('positive random scale=%g' % scale,
                            [scale * rng.uniform(0.1, 1) for _ in range(length)], None))
        streams.append(('normal', [rng.gauss(0, 1) for _ in range(rng.choice(lengths))], None))
        streams.append(('lognormal', [math.exp(rng.gauss(0, 20)) * rng.choice([-1, 1])
                                      for _ in range(rng.choice(lengths))], None))
        c = rng.choice([0.0, 1.0, -2.5, 1e150, -1e-150, 3])
        streams.append(('constant %g' % c, [c] * rng.choice(lengths), None))
        streams.append(('constant then noise',
                        [1.0 + (rng.uniform(-1, 1) * 1e-16 if i > 5 else 0.1 / (i + 1))
                         for i in range(rng.choice(lengths))], None))
        streams.append(('random ints', [rng.randint(-1000, 1000)
                                        for _ in range(rng.choice(lengths))], None))
        streams.append(('random walk ints', list(np.cumsum([rng.randint(-3, 3) for _ in range(
            rng.choice(lengths))]).tolist()), None))
    # series
    for length in ([40] if QUICK else [10, 40, 200]):
        streams.append(('ln2', list(np.cumsum([(-1.0) ** i / (i + 1) for i in range(length)])), None))
        streams.append(('zeta2', list(np.cumsum([1.0 / (i + 1) ** 2 for i in range(length)])), None))
        streams.append(('leibniz', list(np.cumsum([4 * (-1.0) ** i / (2 * i + 1)
                                                   for i in range(length)])), None))
        streams.append(('factorial divergent', [min(float(math.factorial(min(i, 100))), 1e150) *
                                                (-1) ** i for i in range(length)], None))
        streams.append(('2**n', [2.0 ** min(i, 498) for i in range(length)], None))
        streams.append(('1e150 * (-1)**n', [1e150 * (-1) ** i for i in range(length)], None))
        streams.append(('powers of ten', [10.0 ** ((i * 37) % 301 - 150) for i in range(length)], None))
        streams.append(('zeros then ones', [0.0] * (length // 2) + [1.0] * (length - length // 2),
                        None))
        streams.append(('tiny geometric 2e-28*0.25**k', [2e-28 * 0.25 ** i for i in range(length)],
                        None))
        streams.append(('subnormal', [5e-324 * (i % 7) for i in range(length)], None))
    return streams


# ------------------------------------------------------------------------------------------
# P1: EpsAlg against the exact table
# ------------------------------------------------------------------------------------------
def run_epsalg(name, seq, exact_info, max_exact):
    """Returns (outputs, exact table or None)"""
    alg = EpsAlg()
    table = ExactTable()
    outputs = []
    tracking = True
    for n, term in enumerate(seq):
        try:
            with warnings.catch_warnings():
                warnings.simplefilter('ignore')
                val = alg(term)
        except Exception as exc:  # pylint: disable=broad-except
            fail('P1 EpsAlg raised %r on %s term %d' % (exc, name, n))
            return outputs, table
        outputs.append(val)
        STATS['epsalg_terms'] += 1
        if type(val) is not float:
            fail('P1b EpsAlg returned %s on %s term %d' % (type(val), name, n))
        if not tracking:
            continue
        exact, bound = table.feed(float(term))
        degenerate = any(e is None for diag in table.history for e, _ in diag)
        if exact_info is not None and n == exact_info[1] and not degenerate:
            if exact != exact_info[0]:
                fail('reference table does not recover the limit exactly: %s' % name)
            STATS['exact_limit_hits'] += 1
            if not bound < 1e-6 * max(1.0, abs(exact_info[0])):
                fail('P1 limit + k transients badly conditioned?! %s bound=%g' % (name, bound))
        if bound < INF:
            diff = tofloat(abs(Fraction(val) - exact)) if math.isfinite(val) else INF
            STATS['epsalg_checked'] += 1
            STATS['epsalg_max_terms'] = max(STATS['epsalg_max_terms'], n + 1)
            if bound <= 1e-6 * abs(tofloat(exact)):
                STATS['epsalg_tight'] += 1
            if bound > 0:
                STATS['epsalg_maxratio'] = max(STATS['epsalg_maxratio'], diff / bound)
            if not diff <= bound:
                fail('P1 EpsAlg %s term %d: got %r exact %r |diff|=%g > bound %g' %
                     (name, n, val, tofloat(exact), diff, bound))
        if table.dead >= 2 or n + 1 >= max_exact:
            tracking = False  # every later highest order entry depends on a vanished difference
    return outputs, table


# ------------------------------------------------------------------------------------------
# Dea
# ------------------------------------------------------------------------------------------
def guard_zone(table, n, entries_tol):
    """True if, at term n (0 based), one of the rhombi Dea evaluates is (nearly) caught by a
    convergence or irregular behaviour guard, judged from the exact table."""
    hist = table.history
    for i in range(n // 2):
        col = 2 * i
        # e_2 = newest, e_1, e_0 of column col;  e_3 of column col-2; new element column col+2
        try:
            e_2, b_2 = hist[n][col]
            e_1, b_1 = hist[n - 1][col]
            e_0, b_0 = hist[n - 2][col]
            new, b_new = hist[n][col + 2]
        except IndexError:
            return True
        ents = [(e_2, b_2), (e_1, b_1), (e_0, b_0), (new, b_new)]
        if i > 0:
            ents.append(hist[n - 1][col - 2])
        if any(e is None or not b < INF for e, b in ents):
            return True
        f_2, f_1, f_0, f_n = [tofloat(e) for e in (e_2, e_1, e_0, new)]
        pairs = [(f_2, f_1, b_2 + b_1), (f_1, f_0, b_1 + b_0)]
        if i > 0:
            e_3, b_3 = ents[4]
            pairs.append((f_1, tofloat(e_3), b_1 + b_3))
        for f_a, f_b, b_ab in pairs:
            if abs(f_a - f_b) - entries_tol * b_ab <= 1e3 * EPS * max(abs(f_a), abs(f_b)):
                return True
        # epsinf = |sss * e_1| = |e_1 / (new - e_1)| must be safely > 1e-4
        den = abs(f_n - f_1) + entries_tol * (b_new + b_1)
        if not abs(f_1) - entries_tol * b_1 > 1e-3 * den:
            return True
    return False


def run_dea(name, seq, limexp, table, eps_diags):
    lim_eff = 2 * (limexp // 2) + 1
    try:
        dea = Dea(limexp)
    except Exception as exc:  # pylint: disable=broad-except
        fail('P2 Dea(%d) raised %r' % (limexp, exc))
        return []
    outputs = []
    in_zone = False
    for n, term in enumerate(seq):
        try:
            with warnings.catch_warnings():
                warnings.simplefilter('ignore')
                res, err = dea(term)
        except Exception as exc:  # pylint: disable=broad-except
            fail('P2 Dea(limexp=%d) raised %r on %s term %d' % (limexp, exc, name, n))
            return outputs
        outputs.append((float(res), float(err)))
        STATS['dea_calls'] += 1
        if not (np.isfinite(res) and np.isfinite(err)):
            fail('P3 Dea(limexp=%d) %s term %d non finite %r' % (limexp, name, n, (res, err)))
            continue
        if n < 2:
            if float(res) != float(term):
                fail('P4 Dea term %d result %r != term %r (%s)' % (n, res, term, name))
        if n == 2:
            check_dea3(name, seq, limexp, res, err)
        if n >= 2:
            STATS['floor_checked'] += 1
            if not err >= 5.0 * EPS * abs(res):
                fail('P6 Dea(limexp=%d) %s term %d err %g < floor %g' %
                     (limexp, name, n, err, 5 * EPS * abs(res)))
        # P5
        if n >= 2 and not in_zone and table is not None and n < len(table.history) \
                and n + 1 <= lim_eff:
            if guard_zone(table, n, 16.0):
                in_zone = True
            else:
                diag = table.history[n]
                best = INF
                top = False
                for col in range(2, n + 1, 2):
                    exact, bound = diag[col]
                    f_e = tofloat(exact)
                    tol = 64 * bound + 64 * EPS * abs(f_e)
                    d_exact = abs(float(res) - f_e)
                    d_alg = abs(float(res) - eps_diags[n][n - col])
                    ratio = max(d_exact, 0.5 * d_alg) / tol if tol > 0 else INF
                    if ratio < best:
                        best = ratio
                        top = col == n - (n % 2)
                STATS['dea_epsalg_checked'] += 1
                STATS['dea_top_order'] += bool(top)
                if not best <= 1.0:
                    fail('P5 Dea(limexp=%d) %s term %d result %r is no even entry of the epsilon '
                         'table (best ratio %g)' % (limexp, name, n, res, best))
    return outputs


def check_dea3(name, seq, limexp, res, err):
    v_0, v_1, v_2 = [float(v) for v in seq[:3]]
    with warnings.catch_warnings():
        warnings.simplefilter('ignore')
        r_3, e_3 = dea3(v_0, v_1, v_2)
    r_3, e_3 = float(r_3[0]), float(e_3[0])
    STATS['dea3_checked'] += 1
    if float(res) == r_3:
        STATS['dea3_bitident'] += 1
    else:
        # rounding level agreement; conditioning of e_1 + 1/sss
        scale = max(abs(v_1), abs(v_2), abs(r_3), abs(r_3 - v_1))
        if not abs(float(res) - r_3) <= 16 * EPS * scale:
            fail('P4 Dea(limexp=%d) third term %r != dea3 %r (%s)' % (limexp, res, r_3, name))
    converged = r_3 == v_2
    if not converged:
        want = max(e_3, 5 * EPS * abs(r_3))
        if not abs(float(err) - want) <= 1e-9 * want:
            fail('P4 Dea(limexp=%d) third term error %r != dea3 error %r (%s)' %
                 (limexp, err, want, name))


def check_types(rng):
    """P1b / integer and numpy scalar input"""
    for rep in range(5 if QUICK else 20):
        ints = [rng.randint(-50, 50) for _ in range(rng.randint(1, 15))]
        variants = {'int': ints, 'float': [float(i) for i in ints],
                    'np.int64': [np.int64(i) for i in ints],
                    'np.int32': [np.int32(i) for i in ints],
                    'np.float64': [np.float64(i) for i in ints],
                    'np.float32': [np.float32(i) for i in ints],
                    '0-d array': [np.array(float(i)) for i in ints],
                    'Fraction': [Fraction(i) for i in ints]}
        ref_e = ref_d = None
        limexp = rng.randint(3, 60)
        for kind, vals in variants.items():
            alg, dea = EpsAlg(), Dea(limexp)
            try:
                with warnings.catch_warnings():
                    warnings.simplefilter('ignore')
                    out_e = [alg(v) for v in vals]
                    out_d = [tuple(float(x) for x in dea(v)) for v in vals]
            except Exception as exc:  # pylint: disable=broad-except
                fail('P1b/P2 %s input raised %r' % (kind, exc))
                continue
            STATS['type_checked'] += 1
            if any(type(v) is not float for v in out_e):
                fail('P1b EpsAlg does not return float for %s input' % kind)
            if ref_e is None:
                ref_e = out_e
            elif [repr(v) for v in out_e] != [repr(v) for v in ref_e]:
                fail('P1b EpsAlg result depends on input type %s' % kind)
            if ref_d is None:
                ref_d = out_d
            elif repr(out_d) != repr(ref_d):
                fail('Dea result depends on input type %s' % kind)


def check_interleaved(rng, streams):
    """P7: no shared state"""
    for rep in range(4 if QUICK else 15):
        chosen = [rng.choice(streams) for _ in range(rng.randint(2, 5))]
        limexps = [rng.randint(3, 60) for _ in chosen]
        with warnings.catch_warnings():
            warnings.simplefilter('ignore')
            solo = []
            for (name, seq, _), lim in zip(chosen, limexps):
                alg, dea = EpsAlg(), Dea(lim)
                solo.append([(alg(t), tuple(map(float, dea(t)))) for t in seq])
            algs = [EpsAlg() for _ in chosen]
            deas = [Dea(lim) for lim in limexps]
            inter = [[] for _ in chosen]
            pos = [0] * len(chosen)
            while True:
                live = [i for i, (c, p) in enumerate(zip(chosen, pos)) if p < len(c[1])]
                if not live:
                    break
                i = rng.choice(live)
                for _ in range(rng.randint(1, 3)):
                    if pos[i] < len(chosen[i][1]):
                        term = chosen[i][1][pos[i]]
                        inter[i].append((algs[i](term), tuple(map(float, deas[i](term)))))
                        pos[i] += 1
        STATS['interleaved'] += 1
        if repr(solo) != repr(inter):
            fail('P7 interleaved instances differ from solo instances: %s' %
                 [c[0] for c in chosen])


def main():
    rng = random.Random(SEED)
    t_0 = time.time()
    streams = make_streams(rng)
    all_limexp = list(range(3, 61))
    rng.shuffle(all_limexp)
    cursor = 0
    n_lim = 3 if QUICK else 6
    for name, seq, exact_info in streams:
        eps_out, table = run_epsalg(name, seq, exact_info, max_exact=30 if QUICK else 100)
        # EpsAlg anti-diagonals for the direct Dea <-> EpsAlg comparison
        alg = EpsAlg()
        eps_diags = []
        with warnings.catch_warnings():
            warnings.simplefilter('ignore')
            for term in seq[:len(table.history)]:
                alg(term)
                eps_diags.append(list(alg.epstab))
        lims = [all_limexp[(cursor + j) % len(all_limexp)] for j in range(n_lim)]
        cursor += n_lim
        lims += [3, rng.choice([4, 5, 6, 7]), 50]
        for limexp in lims:
            run_dea(name, seq, limexp, table, eps_diags)
    # every limexp with every length 1..200 on one convergent and one random stream
    base_a = [1 + 0.7 ** i - 0.5 * (-0.4) ** i for i in range(200)]
    base_b = [rng.uniform(-1e150, 1e150) for _ in range(200)]
    for limexp in range(3, 61):
        run_dea('all limexp convergent', base_a, limexp, None, None)
        run_dea('all limexp random 1e150', base_b, limexp, None, None)
    check_types(rng)
    check_interleaved(rng, streams)
    print('streams: %d   time %.1fs   seed %d' % (len(streams), time.time() - t_0, SEED))
    for key in sorted(STATS):
        print('  %-22s %s' % (key, STATS[key]))
    if STATS['epsalg_tight'] < 100 or STATS['dea_epsalg_checked'] < 100 \
            or STATS['exact_limit_hits'] < 4:
        fail('check is vacuous: too few effective comparisons')
    if FAILURES:
        print('C14 VIOLATED: %d failure(s)' % len(FAILURES))
        return 1
    print('C14 holds')
    return 0


if __name__ == '__main__':
    sys.exit(main())
