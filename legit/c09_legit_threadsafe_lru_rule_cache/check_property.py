#!/usr/bin/env python
"""
check_property.py  --  history independence check (property C09) for numdifftools

Usage:  python check_property.py <source-root> [--quick] [--seed N] [--strict] [--dump FILE]

<source-root> is the repository root (the library is imported from <source-root>/src) or a
directory directly containing the ``numdifftools`` package.

What is checked
---------------
The value and the full_output record a derivative object returns for a given
(function, point, configuration) must be a function of those alone.  The script drives the
library through many *histories* in one long-lived interpreter

  H1  object reuse               one object called at many points, in several orders
  H2  shared step generators     one generator instance shared by objects with different
                                 method / n / order / x-shape, calls interleaved
  H3  set and restore            n, order and (real-step) method are changed, used, restored
  H4  rule cache manipulation    clear, pre-populate (by use and by re-inserting saved
                                 entries), shrink the cache so every call evicts, swap the
                                 cache for a plain dict
  H5  random histories           seeded random op sequences (length <= 12) over all of the above
  H6  threads                    8 threads running random histories on disjoint objects at
                                 the same time and 16 threads doing the same work in lockstep
                                 (very small switch interval, cold cache, concurrent clears)

and records every observed result as raw bytes.  Each distinct (configuration, point) that
was observed is then evaluated ONCE IN A FRESH SUBPROCESS (new interpreter, cold caches,
a single object, a single call) and the records are compared bit for bit.

Exit status 0: no observation differs from its fresh evaluation. 1: at least one differs.

Extended checks (E*), which go beyond the stated property (a generator instance shared
between threads, callers scribbling on returned rules), are reported, but they only affect
the exit status with --strict.
"""
from __future__ import print_function

import argparse
import itertools
import json
import os
import random
import subprocess
import sys
import threading
import time
import warnings
from concurrent.futures import ThreadPoolExecutor


# --------------------------------------------------------------------------------------
# locating and importing the library under test
# --------------------------------------------------------------------------------------
def _library_path(root):
    root = os.path.abspath(root)
    for candidate in (os.path.join(root, 'src'), root):
        if os.path.isdir(os.path.join(candidate, 'numdifftools')):
            return candidate
    raise SystemExit('can not find the numdifftools package under {}'.format(root))


def _import_library(root):
    sys.path.insert(0, _library_path(root))
    import numpy as np  # noqa
    import numdifftools as nd  # noqa
    from numdifftools import finite_difference as fd  # noqa
    from numdifftools import step_generators as sg  # noqa
    from numdifftools import limits as lim  # noqa
    return np, nd, fd, sg, lim


# --------------------------------------------------------------------------------------
# the functions that are differentiated (looked up by name in the fresh subprocess too)
# --------------------------------------------------------------------------------------
def _make_functions(np):
    def poly(x):
        return x ** 3 + x ** 2

    def rat(x):
        return 1.0 / (1.0 + x * x)

    def rosen(x):
        return (1.0 - x[0]) ** 2 + 105.0 * (x[1] - x[0] ** 2) ** 2

    def quad3(x):
        return x[0] + x[1] ** 2 + x[2] ** 3 + x[0] * x[1] * x[2]

    def vfun(x):
        return np.array([x[0] * x[1], x[1] ** 2 * x[2], x[0] + x[2] ** 3])

    def sinc(x):
        return np.sin(x) / x

    def pole(z):
        return -1.0 / np.expm1(2 * z)

    return dict(exp=np.exp, sin=np.sin, poly=poly, rat=rat, rosen=rosen, quad3=quad3,
                vfun=vfun, sinc=sinc, pole=pole)


SCALAR_FUNS = ('exp', 'sin', 'poly', 'rat')
SCALAR_XS = (0.5, 1.0, 2.0, [0.25, 1.5], [1.0, 0.5, 3.0])
VECTOR_XS = {'rosen': ([1.0, 1.0], [0.5, 2.0], [-1.0, 0.25]),
             'quad3': ([1.0, 2.0, 3.0], [0.5, 0.25, 2.0]),
             'vfun': ([1.0, 2.0, 3.0], [0.5, 0.25, 2.0])}
REAL_METHODS = ('central', 'forward', 'backward')

GENERATOR_SPECS = (
    {'gen': 'min', 'kw': {'num_extrap': 4}},                                 # state dependent
    {'gen': 'min', 'kw': {'num_extrap': 6, 'step_ratio': 2.0}},
    {'gen': 'min', 'kw': {'base_step': 0.01, 'step_ratio': 2.0, 'num_steps': 9}},
    {'gen': 'min', 'kw': {'base_step': 0.02, 'num_steps': 10, 'step_nom': 1.0}},
    {'gen': 'max', 'kw': {}},
    {'gen': 'max', 'kw': {'base_step': 1.0, 'step_ratio': 2.0, 'num_steps': 12}},
    {'gen': 'max', 'kw': {'base_step': 0.5, 'num_steps': 14, 'use_exact_steps': True}},
)


def xs_for(cfg):
    if cfg['cls'] in ('Limit', 'Residue'):
        return (0.0, [0.0, 0.0])
    return VECTOR_XS.get(cfg['fun'], SCALAR_XS)


def config_pool():
    """The pool of configurations the histories draw from."""
    pool = []

    def derivative(fun, method, n, order, step=None, rt=2):
        pool.append(dict(cls='Derivative', fun=fun, method=method, n=n, order=order,
                         step=step, rt=rt))

    # default step generators
    for fun, (method, n, order) in zip(itertools.cycle(SCALAR_FUNS),
                                       [('central', 1, 2), ('central', 2, 2), ('central', 3, 4),
                                        ('central', 4, 2), ('central', 1, 4), ('central', 2, 6),
                                        ('forward', 1, 1), ('forward', 2, 2), ('forward', 3, 3),
                                        ('forward', 1, 4), ('backward', 1, 2), ('backward', 2, 3),
                                        ('backward', 4, 1), ('complex', 1, 2), ('complex', 2, 2),
                                        ('complex', 3, 2), ('complex', 4, 2), ('complex', 1, 4),
                                        ('complex', 5, 2), ('complex', 6, 4),
                                        ('multicomplex', 1, 2), ('multicomplex', 2, 2),
                                        ('central', 0, 2)]):
        derivative(fun, method, n, order)
    # fixed scalar steps
    derivative('exp', 'central', 1, 2, step=0.05)
    derivative('poly', 'forward', 2, 2, step=0.01)
    derivative('sin', 'complex', 1, 2, step=1e-6)
    derivative('rat', 'central', 2, 4, step=0.02, rt=3)
    # explicit generators
    for spec, (fun, method, n, order) in zip(itertools.cycle(GENERATOR_SPECS),
                                             [('exp', 'central', 1, 2), ('sin', 'central', 2, 2),
                                              ('poly', 'forward', 1, 2), ('rat', 'complex', 1, 2),
                                              ('exp', 'central', 3, 4), ('sin', 'backward', 2, 2),
                                              ('poly', 'central', 2, 4), ('rat', 'forward', 3, 2),
                                              ('exp', 'complex', 2, 2), ('sin', 'complex', 3, 4),
                                              ('poly', 'multicomplex', 2, 2),
                                              ('exp', 'central', 4, 2), ('rat', 'central', 1, 6),
                                              ('sin', 'forward', 2, 3)]):
        derivative(fun, method, n, order, step=spec)

    for cls, fun in (('Gradient', 'rosen'), ('Gradient', 'quad3'), ('Jacobian', 'vfun'),
                     ('Hessdiag', 'quad3'), ('Hessdiag', 'rosen')):
        for method, order in (('central', 2), ('forward', 2), ('complex', 2), ('central', 4),
                              ('multicomplex', 2)):
            pool.append(dict(cls=cls, fun=fun, method=method, n=2 if cls == 'Hessdiag' else 1,
                             order=order, step=None, rt=2))
    pool.append(dict(cls='Gradient', fun='rosen', method='central', n=1, order=2,
                     step=GENERATOR_SPECS[0], rt=2))
    pool.append(dict(cls='Jacobian', fun='vfun', method='forward', n=1, order=2,
                     step=GENERATOR_SPECS[5], rt=2))
    for method in ('central', 'forward', 'backward', 'complex', 'multicomplex', 'central2'):
        for fun in ('rosen', 'quad3'):
            pool.append(dict(cls='Hessian', fun=fun, method=method, n=2, order=None,
                             step=None, rt=2))
    pool.append(dict(cls='Hessian', fun='rosen', method='central', n=2, order=None,
                     step=GENERATOR_SPECS[2], rt=2))
    for method, order in (('above', 4), ('below', 4), ('above', 2)):
        pool.append(dict(cls='Limit', fun='sinc', method=method, n=None, order=order,
                         step=None, rt=None))
    pool.append(dict(cls='Residue', fun='pole', method='above', n=None, order=None,
                     step=None, rt=None))
    return pool


# --------------------------------------------------------------------------------------
# building objects, evaluating them and making bit exact records of what they return
# --------------------------------------------------------------------------------------
class Lab(object):
    """Everything that needs the imported library."""

    def __init__(self, root):
        self.np, self.nd, self.fd, self.sg, self.lim = _import_library(root)
        self.functions = _make_functions(self.np)

    def make_generator(self, spec):
        cls = dict(min=self.sg.MinStepGenerator, max=self.sg.MaxStepGenerator)[spec['gen']]
        return cls(**spec['kw'])

    def build(self, cfg, generator=None):
        """Returns new object for cfg. If generator is given it is used for cfg['step']."""
        fun = self.functions[cfg['fun']]
        step = cfg['step']
        if isinstance(step, dict):
            step = generator if generator is not None else self.make_generator(step)
        name = cfg['cls']
        if name == 'Limit':
            return self.lim.Limit(fun, step=step, method=cfg['method'], order=cfg['order'],
                                  full_output=True)
        if name == 'Residue':
            return self.lim.Residue(fun, step=step, method=cfg['method'], full_output=True)
        options = dict(step=step, method=cfg['method'], full_output=True,
                       richardson_terms=cfg['rt'])
        if name == 'Hessian':
            return self.nd.Hessian(fun, **options)
        options['order'] = cfg['order']
        if name == 'Derivative':
            options['n'] = cfg['n']
        return getattr(self.nd, name)(fun, **options)

    def canon(self, value):
        """Returns a json-able, bit exact description of value."""
        if isinstance(value, tuple):
            fields = getattr(value, '_fields', None)
            items = [self.canon(item) for item in value]
            if fields:
                return {'namedtuple': type(value).__name__, 'fields': list(fields),
                        'items': items}
            return {'tuple': items}
        array = self.np.asarray(value)
        if array.dtype == object:
            return {'object': repr(value)}
        return {'dtype': array.dtype.str, 'shape': list(array.shape),
                'bytes': self.np.ascontiguousarray(array).tobytes().hex()}

    def evaluate(self, obj, x):
        """Returns the record of obj(x)."""
        # NB! warnings are switched off globally in main: catch_warnings is not thread safe
        try:
            return self.canon(obj(x))
        except Exception as error:  # pylint: disable=broad-except
            return {'exception': type(error).__name__, 'message': str(error)}

    # ---- rule cache helpers (work with a plain dict as well as with a bounded cache) ----
    def clear_cache(self):
        self.fd.FD_RULES.clear()

    def prewarm_cache(self, step_ratios=(2.0, 1.6, 1.6000000000000001, 4.0, 3.0)):
        for method in ('central', 'forward', 'backward', 'complex'):
            for n in range(1, 7):
                for order in range(1, 7):
                    for step_ratio in step_ratios:
                        try:
                            self.fd.LogRule(n=n, method=method, order=order).rule(step_ratio)
                        except Exception:  # pylint: disable=broad-except
                            pass


def key_of(cfg, x):
    return json.dumps(dict(cfg, x=x), sort_keys=True)


# --------------------------------------------------------------------------------------
# fresh evaluation
# --------------------------------------------------------------------------------------
def fresh_main(root):
    """Evaluate the single (cfg, x) given as json on stdin in this (fresh) interpreter."""
    cfg = json.loads(sys.stdin.read())
    x = cfg.pop('x')
    lab = Lab(root)
    record = lab.evaluate(lab.build(cfg), x)
    sys.stdout.write(json.dumps(record, sort_keys=True))


def fresh_records(root, keys, workers):
    script = os.path.abspath(__file__)

    def run(key):
        proc = subprocess.run([sys.executable, script, root, '--fresh'], input=key,
                              capture_output=True, universal_newlines=True)
        if proc.returncode != 0:
            raise RuntimeError('fresh evaluation failed for {}:\n{}'.format(key, proc.stderr))
        return key, json.loads(proc.stdout)

    with ThreadPoolExecutor(max_workers=workers) as pool:
        return dict(pool.map(run, keys))


# --------------------------------------------------------------------------------------
# histories
# --------------------------------------------------------------------------------------
class Recorder(object):
    """Thread safe list of (key, record, label) observations."""

    def __init__(self):
        self._lock = threading.Lock()
        self.observations = []

    def add(self, cfg, x, record, label):
        with self._lock:
            self.observations.append((key_of(cfg, x), record, label))

    def observe(self, lab, obj, cfg, x, label):
        self.add(cfg, x, lab.evaluate(obj, x), label)


def h1_object_reuse(lab, rec, pool, rng):
    for i, cfg in enumerate(pool):
        obj = lab.build(cfg)
        xs = list(xs_for(cfg))
        order = xs + xs[::-1] + [rng.choice(xs) for _ in range(3)]
        for j, x in enumerate(order):
            rec.observe(lab, obj, cfg, x, 'H1 reuse cfg#{} call#{}'.format(i, j))


def h2_shared_generators(lab, rec, pool, rng):
    by_spec = {}
    for cfg in pool:
        if isinstance(cfg['step'], dict):
            by_spec.setdefault(json.dumps(cfg['step'], sort_keys=True), []).append(cfg)
    variations = [('central', 1, 2), ('central', 2, 2), ('forward', 1, 2), ('central', 3, 4),
                  ('backward', 2, 1), ('central', 4, 2), ('forward', 3, 3), ('central', 1, 6)]
    for spec_key, cfgs in sorted(by_spec.items()):
        spec = json.loads(spec_key)
        generator = lab.make_generator(spec)
        members = [dict(c) for c in cfgs]
        # more users of the very same generator instance, with other method/n/order
        for k, (method, n, order) in enumerate(variations):
            members.append(dict(cls='Derivative', fun=SCALAR_FUNS[k % 4], method=method, n=n,
                                order=order, step=spec, rt=2))
        objects = [(cfg, lab.build(cfg, generator)) for cfg in members]
        # round robin, then random interleaving, scalar and vector x mixed
        for _round in range(2):
            for cfg, obj in objects:
                rec.observe(lab, obj, cfg, rng.choice(xs_for(cfg)), 'H2 shared round robin')
        for _ in range(3 * len(objects)):
            cfg, obj = rng.choice(objects)
            rec.observe(lab, obj, cfg, rng.choice(xs_for(cfg)), 'H2 shared random')
        # the generator used directly by the user in between
        list(generator(1.0, 'complex', 5, 4))
        for cfg, obj in objects:
            rec.observe(lab, obj, cfg, rng.choice(xs_for(cfg)), 'H2 shared after direct use')


def _settable(cfg):
    return cfg['cls'] == 'Derivative' and cfg['method'] in REAL_METHODS and cfg['n'] >= 1


def h3_set_restore(lab, rec, pool, rng):
    for i, cfg in enumerate(c for c in pool if _settable(c)):
        obj = lab.build(cfg)
        xs = xs_for(cfg)
        label = 'H3 set/restore cfg#{} '.format(i)
        rec.observe(lab, obj, cfg, xs[0], label + 'before')
        for attr, values in (('n', (0, 1, 2, 3, 4)), ('order', (1, 2, 3, 4, 6)),
                             ('method', REAL_METHODS)):
            original = cfg[attr]
            for value in values:
                if value == original:
                    continue
                changed = dict(cfg, **{attr: value})
                setattr(obj, attr, value)
                if rng.random() < 0.7:  # sometimes changed and restored without being used
                    rec.observe(lab, obj, changed, rng.choice(xs), label + 'changed ' + attr)
                setattr(obj, attr, original)
                rec.observe(lab, obj, cfg, rng.choice(xs), label + 'restored ' + attr)
        # several attributes changed at once and restored in another order
        changed = dict(cfg, n=cfg['n'] % 4 + 1, order=cfg['order'] % 4 + 2,
                       method=REAL_METHODS[(REAL_METHODS.index(cfg['method']) + 1) % 3])
        obj.n, obj.method, obj.order = changed['n'], changed['method'], changed['order']
        rec.observe(lab, obj, changed, xs[1], label + 'changed all')
        obj.order, obj.n, obj.method = cfg['order'], cfg['n'], cfg['method']
        rec.observe(lab, obj, cfg, xs[1], label + 'restored all')


def h4_cache(lab, rec, pool, rng):
    fd = lab.fd
    sample = [cfg for cfg in pool if cfg['cls'] not in ('Limit', 'Residue')]
    objects = [(cfg, lab.build(cfg)) for cfg in sample]

    def sweep(label, subset=None):
        for cfg, obj in (subset or objects):
            rec.observe(lab, obj, cfg, rng.choice(xs_for(cfg)), 'H4 cache ' + label)

    lab.clear_cache()
    sweep('cold')
    sweep('warm')
    lab.clear_cache()
    lab.prewarm_cache()
    sweep('prewarmed by use')
    saved = dict(fd.FD_RULES.items())
    lab.clear_cache()
    for key in sorted(saved, key=repr, reverse=True):  # other insertion order
        fd.FD_RULES[key] = saved[key]
    sweep('pre-populated with saved entries')
    for cfg, obj in objects:  # cleared before every single call
        lab.clear_cache()
        rec.observe(lab, obj, cfg, rng.choice(xs_for(cfg)), 'H4 cache cleared before each')

    cache = fd.FD_RULES
    if hasattr(cache, 'maxsize'):  # bounded cache: make every call evict
        old = cache.maxsize
        try:
            for maxsize in (1, 2, 3):
                cache.maxsize = maxsize
                shuffled = list(objects)
                rng.shuffle(shuffled)
                sweep('maxsize={}'.format(maxsize), shuffled)
                assert len(cache) <= maxsize, 'the cache is not bounded'
        finally:
            cache.maxsize = old
        sweep('maxsize restored')

    # the cache swapped for a plain dict (that is what it has always been) and back
    original = fd.FD_RULES
    try:
        fd.FD_RULES = {}
        sweep('plain dict, cold')
        sweep('plain dict, warm')
    finally:
        fd.FD_RULES = original
    sweep('swapped back')


OPS = ('construct', 'call', 'call', 'call', 'set', 'restore', 'share', 'clear', 'prewarm')


def run_random_history(lab, rec, pool, rng, length, label, cache_ops=True):
    """One random history: a finite op sequence over a few slots."""
    slots = []  # each: dict(cfg=current cfg, base=cfg at construction, obj=..., gen=...)

    def construct(cfg=None, generator=None):
        cfg = dict(cfg or rng.choice(pool))
        if isinstance(cfg['step'], dict) and generator is None:
            generator = lab.make_generator(cfg['step'])
        obj = lab.build(cfg, generator)
        slots.append(dict(cfg=cfg, base=dict(cfg), obj=obj, gen=generator))

    construct()
    for step in range(length):
        op = rng.choice(OPS)
        slot = rng.choice(slots)
        if op == 'construct':
            construct()
        elif op == 'call':
            x = rng.choice(xs_for(slot['cfg']))
            rec.observe(lab, slot['obj'], slot['cfg'], x, '{} op#{} call'.format(label, step))
        elif op == 'set' and _settable(slot['base']):
            attr = rng.choice(('n', 'order', 'method'))
            value = rng.choice({'n': (1, 2, 3, 4), 'order': (1, 2, 3, 4),
                                'method': REAL_METHODS}[attr])
            setattr(slot['obj'], attr, value)
            slot['cfg'] = dict(slot['cfg'], **{attr: value})
        elif op == 'restore':
            for attr in ('method', 'n', 'order'):
                if slot['cfg'][attr] != slot['base'][attr]:
                    setattr(slot['obj'], attr, slot['base'][attr])
            slot['cfg'] = dict(slot['base'])
        elif op == 'share' and slot['gen'] is not None:
            method, n, order = rng.choice([('central', 1, 2), ('central', 2, 4),
                                           ('forward', 2, 2), ('backward', 1, 3),
                                           ('central', 3, 2), ('complex', 2, 2)])
            construct(dict(cls='Derivative', fun=rng.choice(SCALAR_FUNS), method=method, n=n,
                           order=order, step=slot['base']['step'], rt=2), slot['gen'])
        elif op == 'clear' and cache_ops:
            lab.clear_cache()
        elif op == 'prewarm' and cache_ops:
            lab.prewarm_cache(step_ratios=(rng.choice((2.0, 1.6000000000000001, 3.0)),))
    for k, slot in enumerate(slots):  # every history ends by using everything once more
        x = rng.choice(xs_for(slot['cfg']))
        rec.observe(lab, slot['obj'], slot['cfg'], x, '{} final slot#{}'.format(label, k))


def h5_random(lab, rec, pool, rng, count):
    for i in range(count):
        run_random_history(lab, rec, pool, rng, rng.randint(4, 12), 'H5 random#{}'.format(i))


def _run_threads(targets):
    errors = []
    barrier = threading.Barrier(len(targets))

    def wrap(target):
        def runner():
            try:
                barrier.wait()
                target()
            except BaseException as error:  # pylint: disable=broad-except
                errors.append(error)
                raise
        return runner

    threads = [threading.Thread(target=wrap(t)) for t in targets]
    old = sys.getswitchinterval()
    sys.setswitchinterval(1e-6)
    try:
        for thread in threads:
            thread.start()
        for thread in threads:
            thread.join()
    finally:
        sys.setswitchinterval(old)
    if errors:
        raise errors[0]


def h6_threads(lab, rec, pool, seed, rounds, num_threads=8):
    for round_no in range(rounds):
        clearing = round_no % 2 == 1  # every other round the threads also clear the cache
        if round_no % 3 == 0:
            lab.clear_cache()  # start some rounds cold, so the threads race to fill the cache

        def make(tid, round_no=round_no, clearing=clearing):
            rng = random.Random(seed * 1000003 + round_no * 101 + tid)

            def target():
                for k in range(3):
                    run_random_history(lab, rec, pool, rng, 12,
                                       'H6 round#{} thread#{} hist#{}'.format(round_no, tid, k),
                                       cache_ops=clearing)
            return target

        _run_threads([make(tid) for tid in range(num_threads)])

    # all threads doing exactly the same thing at the same time on their own objects
    same = [cfg for cfg in pool if cfg['cls'] == 'Derivative'][:24]
    for _ in range(max(rounds // 2, 1)):
        lab.clear_cache()

        def target():
            for cfg in same:
                obj = lab.build(cfg)
                for x in xs_for(cfg)[:2]:
                    rec.observe(lab, obj, cfg, x, 'H6 lockstep')
        _run_threads([target] * (2 * num_threads))  # 16 threads


def e1_generator_shared_between_threads(lab, rec, seed, num_threads=8):
    """Extended: one generator instance used from several threads at once."""
    variations = [('central', 1, 2), ('central', 2, 2), ('forward', 1, 2), ('central', 3, 4),
                  ('backward', 2, 1), ('central', 4, 2), ('forward', 3, 3), ('complex', 2, 2)]
    for spec in GENERATOR_SPECS[:2]:
        generator = lab.make_generator(spec)

        def make(tid, spec=spec, generator=generator):
            method, n, order = variations[tid % len(variations)]
            cfg = dict(cls='Derivative', fun=SCALAR_FUNS[tid % 4], method=method, n=n,
                       order=order, step=spec, rt=2)
            obj = lab.build(cfg, generator)
            rng = random.Random(seed + tid)

            def target():
                for _ in range(40):
                    rec.observe(lab, obj, cfg, rng.choice(SCALAR_XS), 'E1 generator shared '
                                'between threads')
            return target
        _run_threads([make(tid) for tid in range(num_threads)])


def e2_scribble_on_returned_rules(lab, rec, pool, rng):
    """Extended: a caller overwriting the rule arrays it was handed must not hurt others."""
    np = lab.np
    lab.prewarm_cache()
    for method in ('central', 'forward', 'backward', 'complex'):
        for n in range(1, 5):
            for order in range(1, 5):
                for step_ratio in (2.0, 1.6):
                    rule = lab.fd.LogRule(n=n, method=method, order=order).rule(step_ratio)
                    try:
                        rule[...] = np.nan
                    except ValueError:
                        pass  # read-only: fine as well
    for cfg in pool:
        if cfg['cls'] not in ('Limit', 'Residue'):
            rec.observe(lab, lab.build(cfg), cfg, rng.choice(xs_for(cfg)), 'E2 scribble')
    lab.clear_cache()


# --------------------------------------------------------------------------------------
def compare(observations, fresh):
    bad = []
    for key, record, label in observations:
        if record != fresh[key]:
            bad.append((label, key, record, fresh[key]))
    return bad


def report(title, observations, bad, limit=8):
    print('{:<10s} observations={:6d}  mismatches={}'.format(title, len(observations), len(bad)))
    for label, key, record, expected in bad[:limit]:
        print('   MISMATCH [{}]\n      config  : {}\n      observed: {}\n      fresh   : {}'.format(
            label, key, json.dumps(record, sort_keys=True)[:400],
            json.dumps(expected, sort_keys=True)[:400]))
    if len(bad) > limit:
        print('   ... and {} more'.format(len(bad) - limit))


def main():
    parser = argparse.ArgumentParser(description=__doc__.split('\n\n')[0])
    parser.add_argument('root')
    parser.add_argument('--fresh', action='store_true', help=argparse.SUPPRESS)
    parser.add_argument('--quick', action='store_true', help='fewer random histories/rounds')
    parser.add_argument('--seed', type=int, default=20261003)
    parser.add_argument('--strict', action='store_true',
                        help='the extended checks count towards the exit status')
    parser.add_argument('--dump', help='write the fresh records (json) to this file')
    parser.add_argument('--workers', type=int, default=min(os.cpu_count() or 2, 12))
    args = parser.parse_args()
    warnings.simplefilter('ignore')  # once and for all: catch_warnings is not thread safe
    # The same BLAS/OpenMP threading in this process and in the fresh ones (set before numpy
    # is imported; the matrices involved are tiny, this only avoids spinning up thread pools).
    for name in ('OPENBLAS_NUM_THREADS', 'OMP_NUM_THREADS', 'MKL_NUM_THREADS'):
        os.environ.setdefault(name, '1')
    if args.fresh:
        return fresh_main(args.root)

    started = time.time()
    lab = Lab(args.root)
    pool = config_pool()
    print('library  :', os.path.dirname(lab.nd.__file__))
    print('rule cache type:', type(lab.fd.FD_RULES).__name__, '  configurations:', len(pool))

    rng = random.Random(args.seed)
    stages = [('H1', lambda rec: h1_object_reuse(lab, rec, pool, rng)),
              ('H2', lambda rec: h2_shared_generators(lab, rec, pool, rng)),
              ('H3', lambda rec: h3_set_restore(lab, rec, pool, rng)),
              ('H4', lambda rec: h4_cache(lab, rec, pool, rng)),
              ('H5', lambda rec: h5_random(lab, rec, pool, rng, 30 if args.quick else 120)),
              ('H6', lambda rec: h6_threads(lab, rec, pool, args.seed, 2 if args.quick else 6))]
    extended = [('E1', lambda rec: e1_generator_shared_between_threads(lab, rec, args.seed)),
                ('E2', lambda rec: e2_scribble_on_returned_rules(lab, rec, pool, rng))]

    results = []
    for name, stage in stages + extended:
        rec = Recorder()
        stage(rec)
        results.append((name, rec.observations))
    keys = sorted(set(key for _name, obs in results for key, _r, _l in obs))
    print('histories done in {:.1f}s; {} observations; {} distinct (configuration, point) '
          'pairs to evaluate in fresh interpreters'.format(
              time.time() - started, sum(len(obs) for _n, obs in results), len(keys)))
    fresh = fresh_records(args.root, keys, args.workers)
    failures = sum(1 for record in fresh.values() if 'exception' in record)
    print('fresh evaluations done ({} of them raise, which is part of their record); '
          'total {:.1f}s'.format(failures, time.time() - started))
    if args.dump:
        with open(args.dump, 'w') as stream:
            json.dump(fresh, stream, sort_keys=True, indent=0)

    failed = failed_extended = 0
    for name, observations in results:
        bad = compare(observations, fresh)
        report(name, observations, bad)
        if name.startswith('E'):
            failed_extended += len(bad)
        else:
            failed += len(bad)
    if failed_extended:
        print('NOTE: extended checks (beyond the stated property) have {} mismatches{}'.format(
            failed_extended, '' if args.strict else ' [ignored without --strict]'))
    if args.strict:
        failed += failed_extended
    print('RESULT:', 'property C09 HOLDS' if not failed else
          'property C09 VIOLATED ({} mismatches)'.format(failed))
    return 1 if failed else 0


if __name__ == '__main__':
    sys.exit(main())
