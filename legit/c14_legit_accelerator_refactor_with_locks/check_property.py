"""
Checks the literal promises of property C14 (streaming epsilon algorithms) on a source tree.

usage: python check_property.py SOURCE_ROOT [--moderate] [--seed N] [--quick]

SOURCE_ROOT is a checkout of numdifftools (the directory that contains src/numdifftools) or the
directory that contains the numdifftools package. Exit status 0 means that every promise held on
every stream, 1 that at least one promise was broken (the first failures are printed).

Promises checked (C14):
 E1  EpsAlg, fed one term at a time, returns after each term the entry of Wynn's epsilon table of
     highest even order determined by the terms seen so far, as long as no table difference
     vanishes. Checked against an exact fractions.Fraction epsilon table. The comparison uses a
     running first order bound of the rounding error of the float recursion, and is only made
     where that bound says the float recursion is well-conditioned.
 E2  A limit plus k geometric transients (k=1..4) is recovered from 2k+1 terms (exactly
     representable dyadic streams, so that the exact table gives the limit exactly).
 D1  Dea accepts sequences of any length (up to 200 here) for every limexp in 3..60 without raising.
 D2  Dea returns finite values (result and abserr) for finite input.
 D3  Dea agrees on the first three terms with dea3, and outside the convergence and
     irregular-behaviour guards, with EpsAlg.
 D4  From the third term on abserr >= 5 * eps * |result|.
In addition: several interleaved instances and two threads with separate instances give
bit-identical values to instances that are fed alone (no hidden shared state), integer, numpy
scalar and 0-d array terms are accepted and give the values of the corresponding floats.
"""
from __future__ import print_function
import argparse
import math
import os
import random
import sys
import threading
import warnings
from fractions import Fraction

import numpy as np

EPS = float(np.finfo(float).eps)
HUGE = float(np.finfo(float).max)
UNIT = EPS / 2


def import_library(root):
    root = os.path.abspath(root)
    for candidate in (os.path.join(root, 'src'), root):
        if os.path.isdir(os.path.join(candidate, 'numdifftools')):
            sys.path.insert(0, candidate)
            break
    else:
        raise SystemExit('no numdifftools package below %s' % root)
    import numdifftools.extrapolation as extrapolation
    here = os.path.abspath(extrapolation.__file__)
    if not here.startswith(root):
        raise SystemExit('imported %s which is not below %s' % (here, root))
    return extrapolation


class Report(object):
    def __init__(self):
        self.failures = {}
        self.counts = {}
        self.lock = threading.Lock()

    def ok(self, key, n=1):
        with self.lock:
            self.counts[key] = self.counts.get(key, 0) + n

    def fail(self, key, msg):
        with self.lock:
            lst = self.failures.setdefault(key, [])
            lst.append(msg)
            if len(lst) <= 5:
                print('FAIL %s: %s' % (key, msg))

    def check(self, key, cond, msg):
        if cond:
            self.ok(key)
        else:
            self.fail(key, msg() if callable(msg) else msg)
        return cond


# ------------------------------------------------------------------------------------------
# Exact epsilon table with a running error bound for the float recursion
# ------------------------------------------------------------------------------------------
class ExactEpsilonTable(object):
    """
    Last anti-diagonal of Wynn's epsilon table in exact rational arithmetic.

    diag[j] = eps_(n-j)^(j) after the terms s_0..s_n. bound[j] is a first order bound of the
    absolute error of the same entry computed with the float recursion
        eps_(k+1)^(j) = eps_(k-1)^(j+1) + 1 / (eps_k^(j+1) - eps_k^(j))
    (inf if the recursion is ill-conditioned there or if the entry depends on a difference that
    vanishes, exactly or in the sense of the 1e-60 guard of EpsAlg).
    """
    VANISH = 1e-50  # keep well away from the guard at 1e-60

    def __init__(self):
        self.diag = []
        self.bound = []
        self.vanished = False

    def __call__(self, term):
        term = Fraction(term)
        diag, bound = self.diag, self.bound
        n = len(diag)
        diag.append(term)
        bound.append(0.0)
        old_below, old_below_bound = Fraction(0), 0.0
        for j in range(n - 1, -1, -1):
            old, old_bound = diag[j], bound[j]
            delta = diag[j + 1] - old
            try:
                adelta = abs(float(delta)) if delta != 0 else 0.0
            except OverflowError:
                adelta = float('inf')
            if self.vanished or adelta <= self.VANISH or adelta > 1e250:
                self.vanished = True  # everything that is computed from now on is unreliable
                if delta == 0:
                    delta = Fraction(1)
                diag[j] = old_below + 1 / delta
                bound[j] = float('inf')
            else:
                new = old_below + 1 / delta
                err_delta = bound[j + 1] + old_bound + UNIT * adelta
                if err_delta > 1e-3 * adelta or not err_delta < float('inf'):
                    new_bound = float('inf')
                else:
                    inv = 1.0 / adelta
                    new_bound = (old_below_bound + 1.01 * err_delta * inv * inv + UNIT * inv +
                                 UNIT * abs(float(new)))
                diag[j] = new
                bound[j] = new_bound
            old_below, old_below_bound = old, old_bound
        return diag[n % 2], bound[n % 2]


# ------------------------------------------------------------------------------------------
# Streams
# ------------------------------------------------------------------------------------------
def clip(value):
    return min(max(value, -HUGE), HUGE)


def geometric_stream(rng, n, scale=1.0, k=None):
    k = k or rng.randrange(1, 5)
    amps = [rng.uniform(0.3, 2) * rng.choice([-1, 1]) for _ in range(k)]
    ratios = rng.sample([0.9, -0.8, 0.65, -0.5, 0.35, -0.2, 0.1, 0.75, -0.3], k)
    limit = rng.uniform(-3, 3)
    return [clip(scale * (limit + sum(a * q ** j for a, q in zip(amps, ratios))))
            for j in range(n)]


def dyadic_geometric_stream(rng, k):
    """limit + k transients, all 2k+1 terms exactly representable. Returns terms and limit."""
    amps = [rng.choice([-1, 1]) * rng.randrange(1, 16) / 4.0 for _ in range(k)]
    ratios = [m / 8.0 for m in rng.sample([-7, -5, -3, -1, 1, 2, 3, 5, 6, 7], k)]
    limit = float(rng.randrange(-8, 9))
    terms = [limit + sum(a * q ** j for a, q in zip(amps, ratios)) for j in range(2 * k + 1)]
    exact = [Fraction(limit) + sum(Fraction(a) * Fraction(q) ** j for a, q in zip(amps, ratios))
             for j in range(2 * k + 1)]
    assert [Fraction(t) for t in terms] == exact
    return terms, limit


def make_stream(rng, kind, n, scale):
    if kind == 'geometric':
        return geometric_stream(rng, n, scale)
    if kind == 'random':
        return [scale * rng.uniform(-1, 1) for _ in range(n)]
    if kind == 'gauss':
        return [clip(scale * rng.gauss(0, 1)) for _ in range(n)]
    if kind == 'constant':
        return [scale * rng.uniform(-5, 5)] * n
    if kind == 'nearly_constant':
        c = rng.uniform(-5, 5)
        return [scale * (c + rng.choice([0, 1e-16, -1e-16, 1e-12, 1e-8]) * rng.random())
                for _ in range(n)]
    if kind == 'divergent':
        q = rng.uniform(1.02, 3) * rng.choice([-1, 1])
        a = rng.uniform(-2, 2)
        out = []
        for j in range(n):
            try:
                out.append(clip(scale * (a + q ** j)))
            except OverflowError:
                out.append(HUGE if q > 0 or j % 2 == 0 else -HUGE)
        return out
    if kind == 'alternating_series':
        total, out = 0.0, []
        for j in range(1, n + 1):
            total += (-1) ** j / float(j)
            out.append(scale * total)
        return out
    if kind == 'logarithmic':
        total, out = 0.0, []
        for j in range(1, n + 1):
            total += 1.0 / (j * j)
            out.append(scale * total)
        return out
    if kind == 'small_integers':
        return [float(rng.randrange(-5, 6)) for _ in range(n)]
    if kind == 'extremes':
        return [rng.choice([HUGE, -HUGE, 1e308, -1e308, 1e-308, 0.0, 5e-324, 1.0, -1.0, 1e300])
                for _ in range(n)]
    if kind == 'restarts':
        # converges, jumps, converges again: exercises the guards and the table restarts
        out, level = [], rng.uniform(-2, 2)
        while len(out) < n:
            m = rng.randrange(3, 30)
            q = rng.uniform(-0.9, 0.9)
            out.extend(scale * (level + q ** j) for j in range(m))
            level += rng.uniform(-2, 2)
        return out[:n]
    raise ValueError(kind)


KINDS = ['geometric', 'geometric', 'random', 'gauss', 'constant', 'nearly_constant', 'divergent',
         'alternating_series', 'logarithmic', 'small_integers', 'extremes', 'restarts']


def finite(value):
    try:
        return math.isfinite(value)
    except TypeError:
        return False


# ------------------------------------------------------------------------------------------
# The checks
# ------------------------------------------------------------------------------------------
def third_term_guards(s_0, s_1, s_2):
    """Returns 'converged', 'irregular', 'borderline' or None for the first rhombus of Dea."""
    delta2, delta3 = s_2 - s_1, s_1 - s_0
    err2, err3 = abs(delta2), abs(delta3)
    tol2 = max(abs(s_2), abs(s_1)) * EPS
    tol3 = max(abs(s_1), abs(s_0)) * EPS
    if err2 <= tol2 or err3 <= tol3:
        return 'converged'
    with np.errstate(all='ignore'):
        sss = np.float64(1.0) / delta2 - np.float64(1.0) / delta3
        epsinf = abs(float(sss * s_1))
    if not epsinf > 1e-4:
        return 'irregular' if epsinf < 1e-4 * (1 - 1e-6) or epsinf != epsinf else 'borderline'
    if epsinf < 1e-4 * (1 + 1e-6):
        return 'borderline'
    return None


def run_dea(lib, report, seq, limexp, tag, moderate_scale, outputs=None):
    """Feeds seq to a fresh Dea (and EpsAlg) and checks D1-D4. Returns list of (result, abserr)."""
    out = []
    try:
        dea = lib.Dea(limexp)
    except Exception as error:  # pylint: disable=broad-except
        report.fail('D1', '%s: Dea(%r) raised %r' % (tag, limexp, error))
        return out
    eps_alg = lib.EpsAlg()
    eps_vals = []
    for j, term in enumerate(seq):
        try:
            result, abserr = dea(term)
        except Exception as error:  # pylint: disable=broad-except
            report.fail('D1', '%s: limexp=%d raised %r at term %d' % (tag, limexp, error, j + 1))
            return out
        report.ok('D1')
        out.append((result, abserr))
        if not report.check('D2', finite(result) and finite(abserr),
                            '%s: limexp=%d term %d: non-finite (%r, %r), last terms %r' %
                            (tag, limexp, j + 1, result, abserr, seq[max(0, j - 3):j + 1])):
            continue
        if j >= 2:
            report.check('D4', abserr >= 5.0 * EPS * abs(result),
                         '%s: limexp=%d term %d: abserr=%r < 5 eps |result|=%r' %
                         (tag, limexp, j + 1, abserr, 5.0 * EPS * abs(result)))
        if j < 3:
            try:
                eps_vals.append(eps_alg(term))
            except Exception as error:  # pylint: disable=broad-except
                report.fail('E0', '%s: EpsAlg raised %r at term %d' % (tag, error, j + 1))
                eps_vals.append(float('nan'))
        if j < 2:
            report.check('D3', float(result) == float(term) == float(eps_vals[j]),
                         '%s: limexp=%d term %d: result %r, EpsAlg %r differ from the term %r' %
                         (tag, limexp, j + 1, result, eps_vals[j], term))
        elif j == 2 and moderate_scale:
            s_0, s_1, s_2 = [float(s) for s in seq[:3]]
            guard = third_term_guards(s_0, s_1, s_2)
            if guard == 'borderline':
                continue
            res3, _err3 = lib.dea3(s_0, s_1, s_2)
            res3 = float(res3[0])
            tol = 1e-10 * (max(abs(s_0), abs(s_1), abs(s_2)) + abs(res3))
            report.check('D3', abs(float(result) - res3) <= tol,
                         '%s: limexp=%d third term: Dea %r, dea3 %r, terms %r, guard %r' %
                         (tag, limexp, result, res3, seq[:3], guard))
            if guard is None and min(abs(s_2 - s_1), abs(s_1 - s_0)) > 1e-50:
                with np.errstate(all='ignore'):
                    e_diff = abs(1.0 / np.float64(s_2 - s_1) - 1.0 / np.float64(s_1 - s_0))
                if e_diff > 1e-50:
                    report.check('D3e', abs(float(result) - float(eps_vals[2])) <= tol,
                                 '%s: limexp=%d third term: Dea %r, EpsAlg %r, terms %r' %
                                 (tag, limexp, result, eps_vals[2], seq[:3]))
    if outputs is not None:
        outputs.append(out)
    return out


def run_epsalg_exact(lib, report, seq, tag, max_exact):
    """Feeds seq to a fresh EpsAlg and compares with the exact table where well-conditioned."""
    eps_alg = lib.EpsAlg()
    table = ExactEpsilonTable()
    out = []
    n_compared = 0
    n_bad_in_row = 0
    for j, term in enumerate(seq):
        try:
            value = eps_alg(term)
        except Exception as error:  # pylint: disable=broad-except
            report.fail('E0', '%s: EpsAlg raised %r at term %d' % (tag, error, j + 1))
            return out
        report.ok('E0')
        out.append(value)
        if table is None:
            continue
        exact, bound = table(term)
        scale = max(abs(float(exact)), 1e-300)
        if table.vanished:
            table = None  # a difference vanished: nothing is promised from here on
        elif bound <= 1e-6 * scale:
            n_bad_in_row = 0
            n_compared += 1
            tol = 8 * bound + 4 * EPS * scale
            report.check('E1', finite(value) and abs(Fraction(float(value)) - exact) <= tol,
                         lambda: '%s: term %d: EpsAlg %r, exact %r, tolerance %.3g, terms %r' %
                         (tag, j + 1, value, float(exact), tol, seq[:j + 1][-6:]))
        else:
            n_bad_in_row += 1
            if n_bad_in_row >= 6 or j + 1 >= max_exact:
                table = None  # too ill-conditioned (or too expensive) to go on
        if table is not None and j + 1 >= max_exact:
            table = None
    report.ok('E1-streams-with-comparisons', 1 if n_compared else 0)
    return out


def check_recovery(lib, report, rng):
    for trial in range(300):
        k = 1 + trial % 4
        terms, limit = dyadic_geometric_stream(rng, k)
        table = ExactEpsilonTable()
        eps_alg = lib.EpsAlg()
        for j, term in enumerate(terms):
            exact, bound = table(term)
            value = eps_alg(term)
            if table.vanished:
                break  # a lower order Shanks transform is already exact: nothing promised
            tol = 8 * bound + 4 * EPS * max(abs(float(exact)), 1e-300)
            if bound < float('inf'):
                report.check('E1', finite(value) and abs(Fraction(float(value)) - exact) <= tol,
                             'dyadic k=%d term %d: EpsAlg %r exact %r tol %.3g terms %r' %
                             (k, j + 1, value, float(exact), tol, terms))
        else:
            assert exact == limit, (exact, limit)
            if bound > 1e-4:
                report.ok('E2-skipped-ill-conditioned')
                continue
            report.check('E2', finite(value) and abs(float(value) - limit) <= 8 * bound + 1e-15,
                         'dyadic k=%d: limit %r not recovered from %d terms: %r (bound %.3g) %r'
                         % (k, limit, 2 * k + 1, value, bound, terms))


def check_input_types(lib, report, rng):
    conversions = [('int', int), ('np.int64', np.int64), ('np.int32', np.int32),
                   ('np.float64', np.float64), ('np.float32', np.float32),
                   ('0-d array', np.array), ('float', float)]
    for trial in range(40):
        n = rng.randrange(3, 60)
        ints = [rng.randrange(-1000, 1000) for _ in range(n)]
        limexp = rng.randrange(3, 61)
        dea = lib.Dea(limexp)
        ref_dea = [tuple(map(float, dea(float(v)))) for v in ints]
        eps_alg = lib.EpsAlg()
        ref_eps = [float(eps_alg(float(v))) for v in ints]
        for name, convert in conversions:
            dea, eps_alg = lib.Dea(limexp), lib.EpsAlg()
            try:
                got_dea = [tuple(map(float, dea(convert(v)))) for v in ints]
                got_eps = [float(eps_alg(convert(v))) for v in ints]
            except Exception as error:  # pylint: disable=broad-except
                report.fail('types', '%s terms raised %r' % (name, error))
                continue
            report.check('types', got_dea == ref_dea,
                         'Dea(%d) fed %s terms differs from float terms: %r' % (limexp, name, ints))
            # float32 arithmetic is allowed to be less accurate in EpsAlg
            if name != 'np.float32':
                same = all(a == b or abs(a - b) <= 1e-9 * max(abs(a), abs(b))
                           for a, b in zip(got_eps, ref_eps))
                report.check('types', same, 'EpsAlg fed %s terms differs from float terms: %r' %
                             (name, ints))


def same_outputs(a, b):
    def key(x):
        return [tuple(np.asarray(v, dtype=float).ravel().tolist()) for v in x]
    ka, kb = key(a), key(b)
    return len(ka) == len(kb) and all(
        all(p == q or (p != p and q != q) for p, q in zip(u, v)) for u, v in zip(ka, kb))


def check_interleaved(lib, report, rng, streams):
    """Several instances fed in an interleaved order must behave as if they were fed alone."""
    for trial in range(30):
        chosen = rng.sample(streams, 5)
        alone = []
        for limexp, seq in chosen:
            dea, eps_alg = lib.Dea(limexp), lib.EpsAlg()
            alone.append(([dea(s) for s in seq], [eps_alg(s) for s in seq]))
        deas = [lib.Dea(limexp) for limexp, _ in chosen]
        eps_algs = [lib.EpsAlg() for _ in chosen]
        got = [([], []) for _ in chosen]
        positions = [0] * len(chosen)
        pending = [i for i in range(len(chosen)) if chosen[i][1]]
        while pending:
            i = rng.choice(pending)
            seq = chosen[i][1]
            for _ in range(rng.randrange(1, 4)):
                j = positions[i]
                if j >= len(seq):
                    break
                # EpsAlg and Dea of the same stream are also fed in a varying order
                if rng.random() < 0.5:
                    got[i][0].append(deas[i](seq[j]))
                    got[i][1].append(eps_algs[i](seq[j]))
                else:
                    got[i][1].append(eps_algs[i](seq[j]))
                    got[i][0].append(deas[i](seq[j]))
                positions[i] += 1
            if positions[i] >= len(seq):
                pending.remove(i)
        for i in range(len(chosen)):
            report.check('interleaved', same_outputs(alone[i][0], got[i][0]),
                         'Dea(%d) gives other values when interleaved with other instances' %
                         chosen[i][0])
            report.check('interleaved', same_outputs(alone[i][1], got[i][1]),
                         'EpsAlg gives other values when interleaved with other instances')


def check_threads(lib, report, streams):
    """Two threads with separate instances must give the values of a single thread."""
    expected = []
    for limexp, seq in streams:
        dea, eps_alg = lib.Dea(limexp), lib.EpsAlg()
        expected.append(([dea(s) for s in seq], [eps_alg(s) for s in seq]))
    results = [None, None]
    errors = []
    barrier = threading.Barrier(2)

    def work(slot):
        try:
            barrier.wait()
            out = []
            for limexp, seq in streams:
                dea, eps_alg = lib.Dea(limexp), lib.EpsAlg()
                d_out, e_out = [], []
                for s in seq:
                    d_out.append(dea(s))
                    e_out.append(eps_alg(s))
                out.append((d_out, e_out))
            results[slot] = out
        except Exception as error:  # pylint: disable=broad-except
            errors.append(error)

    old_interval = sys.getswitchinterval()
    sys.setswitchinterval(1e-6)
    try:
        threads = [threading.Thread(target=work, args=(slot,)) for slot in range(2)]
        for thread in threads:
            thread.start()
        for thread in threads:
            thread.join()
    finally:
        sys.setswitchinterval(old_interval)
    for error in errors:
        report.fail('threads', 'a thread raised %r' % (error,))
    for slot in range(2):
        if results[slot] is None:
            continue
        for (limexp, _seq), exp, got in zip(streams, expected, results[slot]):
            report.check('threads', same_outputs(exp[0], got[0]),
                         'Dea(%d) gives other values in thread %d' % (limexp, slot))
            report.check('threads', same_outputs(exp[1], got[1]),
                         'EpsAlg gives other values in thread %d' % slot)


def check_shared_instance(lib, report, streams):
    """Extra (only if the instances carry a lock): one instance shared between two threads."""
    if not hasattr(lib.Dea(3), '_lock') or not hasattr(lib.EpsAlg(), '_lock'):
        return
    seq = [s for _limexp, stream in streams[:6] for s in stream if abs(s) < 1e100]
    for make in (lambda: lib.Dea(9), lib.EpsAlg):
        shared = make()
        errors, values = [], []

        def work():
            try:
                for s in seq:
                    values.append(shared(s))
            except Exception as error:  # pylint: disable=broad-except
                errors.append(error)

        old_interval = sys.getswitchinterval()
        sys.setswitchinterval(1e-6)
        try:
            threads = [threading.Thread(target=work) for _ in range(2)]
            for thread in threads:
                thread.start()
            for thread in threads:
                thread.join()
        finally:
            sys.setswitchinterval(old_interval)
        report.check('shared', not errors, 'shared instance raised %r' % (errors[:1],))
        if hasattr(shared, '__len__'):
            report.check('shared', len(shared) == 2 * len(seq), 'shared EpsAlg lost terms')
        else:
            report.check('shared', all(np.all(np.isfinite(v)) for v in values),
                         'shared Dea returned non-finite values')


def check_reset(lib, report, streams):
    """Extra (only if reset exists): a reset instance behaves like a new one."""
    if not hasattr(lib.Dea, 'reset') or not hasattr(lib.EpsAlg, 'reset'):
        return
    for limexp, seq in streams[:40]:
        dea, eps_alg = lib.Dea(limexp), lib.EpsAlg()
        first = ([dea(s) for s in seq], [eps_alg(s) for s in seq])
        dea.reset()
        eps_alg.reset()
        second = ([dea(s) for s in seq], [eps_alg(s) for s in seq])
        report.check('reset', same_outputs(first[0], second[0]) and
                     same_outputs(first[1], second[1]), 'values differ after reset')


def main(argv):
    parser = argparse.ArgumentParser(description=__doc__,
                                     formatter_class=argparse.RawDescriptionHelpFormatter)
    parser.add_argument('source_root')
    parser.add_argument('--moderate', action='store_true',
                        help='keep the magnitudes of the terms within 1e-250..1e250')
    parser.add_argument('--quick', action='store_true', help='fewer streams')
    parser.add_argument('--seed', type=int, default=20261003)
    options = parser.parse_args(argv[1:])
    moderate, quick = options.moderate, options.quick
    lib = import_library(options.source_root)
    warnings.simplefilter('ignore')
    rng = random.Random(options.seed)
    report = Report()

    scales = [1.0, 1.0, 1.0, 1e-3, 1e3, 1e-30, 1e30, 1e-150, 1e150, 1e-250, 1e250]
    if not moderate:
        scales += [1e-300, 1e300, 1e-308, 1e306, 1e307, 1.5e308, 5e-324 * 1000]
    n_streams = 300 if quick else 1500
    streams = []

    # ---- every limexp and every kind at least a few times, lengths 1..200
    for trial in range(n_streams):
        kind = KINDS[trial % len(KINDS)]
        limexp = 3 + trial % 58
        n = rng.choice([1, 2, 3, 4, 5, 7, 9, 200]) if trial % 7 == 0 else rng.randrange(1, 201)
        scale = rng.choice(scales)
        if moderate and kind == 'extremes':
            kind = 'random'
        seq = [clip(s) for s in make_stream(rng, kind, n, scale)]
        if moderate:
            seq = [s for s in seq if abs(s) <= 1e290] or [scale]
            n = len(seq)
        assert all(finite(s) for s in seq), (kind, scale)
        tag = '%s[n=%d,scale=%g]' % (kind, n, scale)
        if kind == 'small_integers' and trial % 2:
            seq = [int(s) for s in seq]
        moderate_scale = 1e-250 <= scale <= 1e250 and kind != 'extremes'
        run_dea(lib, report, seq, limexp, tag, moderate_scale)
        streams.append((limexp, seq))
        # limexp +/- parity on the same stream: the table size must be right for odd and even
        run_dea(lib, report, seq, 3 + (limexp + 1 - 3) % 58, tag, moderate_scale)

        # ---- EpsAlg against the exact table (the Fraction table is expensive for long streams)
        if 1e-30 <= scale <= 1e30 and kind != 'extremes':
            max_exact = 200 if trial % 97 == 0 else 40
            run_epsalg_exact(lib, report, seq, tag, max_exact)
        else:
            eps_alg = lib.EpsAlg()
            try:
                for s in seq:
                    eps_alg(s)
                report.ok('E0', len(seq))
            except Exception as error:  # pylint: disable=broad-except
                report.fail('E0', '%s: EpsAlg raised %r' % (tag, error))

    # ---- every limexp with long streams that hit the table cap, converge and restart
    for limexp in range(3, 61):
        for kind in ('geometric', 'restarts', 'random', 'alternating_series', 'logarithmic',
                     'constant', 'divergent'):
            seq = make_stream(rng, kind, 200, 1.0)
            run_dea(lib, report, seq, limexp, '%s[n=200,limexp sweep]' % kind, True)

    for check, arguments in [(check_recovery, (rng,)),
                             (check_input_types, (rng,)),
                             (check_interleaved, (rng, streams)),
                             (check_threads, (streams[:120],)),
                             (check_shared_instance, (streams,)),
                             (check_reset, (streams,))]:
        try:
            check(lib, report, *arguments)
        except Exception as error:  # pylint: disable=broad-except
            report.fail('raised', '%s stopped by %r' % (check.__name__, error))

    print('checks made: ' + ', '.join('%s=%d' % kv for kv in sorted(report.counts.items())))
    # the check must not be vacuous
    for key, minimum in [('E1', 2000), ('E2', 100), ('D1', 50000), ('D2', 50000), ('D3', 3000),
                         ('D3e', 300), ('D4', 50000), ('interleaved', 100), ('threads', 100),
                         ('types', 100)]:
        if quick:
            minimum //= 10
        if report.counts.get(key, 0) < minimum:
            report.fail('vacuous', 'only %d checks of %s' % (report.counts.get(key, 0), key))
    if report.failures:
        print('FAILED: ' + ', '.join('%s (%d)' % (k, len(v))
                                      for k, v in sorted(report.failures.items())))
        return 1
    print('all promises of C14 hold')
    return 0


if __name__ == '__main__':
    sys.exit(main(sys.argv))
