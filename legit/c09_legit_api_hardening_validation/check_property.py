#!/usr/bin/env python
"""
check_property.py  <source-root>  [--seed N] [--quick] [--only a,b] [--dump FILE] [--verbose]

Property C09: the value and the full_output record a derivative object returns for a given
(function, point, configuration) depend on those alone -- not on history.

The script drives *histories* in this (warm, long lived) interpreter:

  * reuse of one object for many points,
  * step-generator instances shared between objects with different method / n / order,
  * n / order / method changed and restored, including values that the setters reject,
  * method changed across the real-step / complex-step boundary on default-step objects,
  * the rule cache cleared, pre-populated and pre-populated in "wrong" order,
  * user functions that raise (Exception and KeyboardInterrupt) in the middle of a call,
    followed by normal calls on the same object / the same shared generator,
  * user functions that mutate their argument in place,
  * re-entrant use (a derivative object called inside the function of another call),
  * seeded random operation sequences of length <= 12 over a pool of configurations,
  * 8 threads working on disjoint objects at the same time,

and records every (configuration, point) -> result observation.  Each distinct
(configuration, point) is then evaluated ONCE in a pristine interpreter state and all the
observations are compared with it bit-for-bit (dtype, shape and raw bytes of the value and of
every field of the info record; for calls that raise: exception type and message).

"Pristine interpreter state" is produced by a helper process that does nothing but import
numdifftools and then fork()s one child per evaluation, so every evaluation starts from the
state right after the import (empty rule cache, no objects ever built).  A sample of the
evaluations is repeated in completely separate `python` subprocesses as a cross-check of that
mechanism.

Exit status 0: the property holds for everything that was exercised.  1: a violation (details
are printed).  2: usage / infrastructure problem.
"""
from __future__ import print_function

import json
import os
import sys

# Same numerical environment in every process (set before numpy is imported anywhere).
for _name in ('OMP_NUM_THREADS', 'OPENBLAS_NUM_THREADS', 'MKL_NUM_THREADS'):
    os.environ[_name] = '1'

import random  # noqa: E402
import subprocess  # noqa: E402
import threading  # noqa: E402
import warnings  # noqa: E402

ME = os.path.abspath(__file__)
PYTHON = sys.executable


def _usage():
    print(__doc__)
    sys.exit(2)


if len(sys.argv) < 2 or sys.argv[1].startswith('-'):
    _usage()

ROOT = os.path.abspath(sys.argv[1])
SRC = os.path.join(ROOT, 'src') if os.path.isdir(os.path.join(ROOT, 'src', 'numdifftools')) else ROOT
if not os.path.isdir(os.path.join(SRC, 'numdifftools')):
    print('can not find the numdifftools package under', ROOT)
    sys.exit(2)
sys.path.insert(0, SRC)

import numpy as np  # noqa: E402
import numdifftools as nd  # noqa: E402
from numdifftools import finite_difference as _fd  # noqa: E402
from numdifftools import step_generators as _sg  # noqa: E402

assert os.path.abspath(nd.__file__).startswith(SRC), nd.__file__

warnings.simplefilter('ignore')  # the script's own process only; checked not to be touched by nd


# ----------------------------------------------------------------------------------------------
# user functions (available by name in every process)
# ----------------------------------------------------------------------------------------------
def _poly(x):
    return x ** 3 + x ** 2


def _recip(x):
    return 1.0 / (1.0 + x * x)


def _rosen(x):
    return (1 - x[0]) ** 2 + 105. * (x[1] - x[0] ** 2) ** 2


def _sumsq(x):
    return np.sum(x ** 2, axis=0)


def _cosdiff(x):
    return np.cos(x[0] - x[1])


def _hd(x):
    return x[0] + x[1] ** 2 + x[2] ** 3


def _sq(x):
    return x ** 2


def _vec3(x):
    return np.array([x[0] * x[1], x[0] + x[1] ** 2, np.exp(x[0]) * x[1]])


PURE = dict(exp=np.exp, cos=np.cos, sinh=np.sinh, tanh=np.tanh, poly=_poly, recip=_recip,
            rosen=_rosen, sumsq=_sumsq, cosdiff=_cosdiff, hd=_hd, sq=_sq, vec3=_vec3)


class Raiser(object):
    """Pure function that can be armed to raise at its k-th evaluation (counted from arming)."""

    def __init__(self, fun):
        self.fun = fun
        self.count = 0
        self.at = None
        self.exc = None

    def arm(self, at, exc):
        self.count, self.at, self.exc = 0, at, exc

    def disarm(self):
        self.at = None

    def __call__(self, x):
        if self.at is not None:
            self.count += 1
            if self.count == self.at:
                self.at = None
                raise self.exc('boom at evaluation %d' % self.count)
        return self.fun(x)


class Mutator(object):
    """Evaluates a pure function and then scribbles over its (ndarray) argument in place."""

    def __init__(self, fun):
        self.fun = fun

    def __call__(self, x):
        result = self.fun(x)
        if isinstance(x, np.ndarray) and x.flags.writeable:
            result = result + 0  # detach from x
            x[...] = x * 0 + 12345.678
        return result


_FUN_CACHE = {}


def get_fun(name):
    """Return the function object with the given name ('cos', 'raiser:cos', 'mut:cos', ...)"""
    if name in PURE:
        return PURE[name]
    fun = _FUN_CACHE.get(name)
    if fun is None:
        kind, base = name.split(':')
        fun = dict(raiser=Raiser, mut=Mutator)[kind](PURE[base])
        _FUN_CACHE[name] = fun
    return fun


def pure_twin(name):
    return name.split(':')[-1]


# ----------------------------------------------------------------------------------------------
# specs: json-able description of (function, configuration);  build(spec) -> derivative object
# ----------------------------------------------------------------------------------------------
GEN_CLASSES = dict(MinStepGenerator=nd.MinStepGenerator, MaxStepGenerator=nd.MaxStepGenerator)


def make_generator(desc):
    return GEN_CLASSES[desc['gen']](**desc.get('kw', {}))


def build(spec, generator=None, fun=None):
    """Construct the derivative object described by spec.

    spec = dict(kind=, fun=, method=, [order=], [n=], [full_output=], [richardson_terms=],
                [step= None | float | dict(gen=, kw=)], [step_options=dict])
    `generator`: use this step generator instance (sharing) instead of building spec['step'].
    """
    cls = getattr(nd, spec['kind'])
    kwds = {}
    for key in ('method', 'order', 'n', 'full_output', 'richardson_terms'):
        if key in spec:
            kwds[key] = spec[key]
    step = spec.get('step')
    if generator is not None:
        step = generator
    elif isinstance(step, dict):
        step = make_generator(step)
    kwds['step'] = step
    kwds.update(spec.get('step_options', {}))
    if fun is None:
        fun = get_fun(spec['fun'])
    return cls(fun, **kwds)


def make_x(x):
    """json point -> what is handed to the object (python scalar, or a float ndarray)"""
    if isinstance(x, list):
        return np.array(x, dtype=float)
    return x


def enc(value):
    """bit-exact, json-able encoding of a result"""
    if isinstance(value, tuple) and hasattr(value, '_fields'):
        return {'record': [[name, enc(getattr(value, name))] for name in value._fields]}
    if isinstance(value, (tuple, list)) and any(isinstance(v, tuple) for v in value):
        return {'seq': [enc(v) for v in value]}
    arr = np.asarray(value)
    if arr.dtype == object:
        return {'repr': repr(value)}
    return {'dtype': arr.dtype.str, 'shape': list(arr.shape),
            'hex': np.ascontiguousarray(arr).tobytes().hex()}


def enc_exc(exc):
    return {'exc': [type(exc).__name__, str(exc)]}


def evaluate(obj, x):
    try:
        return enc(obj(make_x(x)))
    except Exception as exc:  # pylint: disable=broad-except
        return enc_exc(exc)


def key_of(spec, x):
    return json.dumps([spec, x], sort_keys=True)


def evaluate_key(key):
    spec, x = json.loads(key)
    try:
        obj = build(spec)
    except Exception as exc:  # pylint: disable=broad-except
        return {'exc': ['construct:' + type(exc).__name__, str(exc)]}
    return evaluate(obj, x)


# ----------------------------------------------------------------------------------------------
# pristine-state evaluation
# ----------------------------------------------------------------------------------------------
def _serve():
    """Fork server: this process only ever imports numdifftools; each request runs in a child."""
    stdin, stdout = sys.stdin, sys.stdout
    for line in stdin:
        line = line.strip()
        if not line:
            continue
        rfd, wfd = os.pipe()
        pid = os.fork()
        if pid == 0:
            os.close(rfd)
            try:
                out = json.dumps(evaluate_key(line))
            except BaseException as exc:  # pylint: disable=broad-except
                out = json.dumps({'exc': ['worker:' + type(exc).__name__, str(exc)]})
            data = out.encode()
            while data:
                data = data[os.write(wfd, data):]
            os._exit(0)
        os.close(wfd)
        chunks = []
        while True:
            chunk = os.read(rfd, 1 << 16)
            if not chunk:
                break
            chunks.append(chunk)
        os.close(rfd)
        os.waitpid(pid, 0)
        stdout.write(b''.join(chunks).decode() + '\n')
        stdout.flush()


class FreshEvaluator(object):
    """Evaluate keys in pristine interpreter state (several fork servers in parallel)."""

    def __init__(self, num_servers=4):
        self.num_servers = num_servers

    def _run(self, keys, out):
        proc = subprocess.Popen([PYTHON, ME, ROOT, '--serve'], stdin=subprocess.PIPE,
                                stdout=subprocess.PIPE, universal_newlines=True)
        try:
            for key in keys:
                proc.stdin.write(key + '\n')
                proc.stdin.flush()
                out[key] = json.loads(proc.stdout.readline())
        finally:
            proc.stdin.close()
            proc.wait()

    def __call__(self, keys):
        keys = sorted(set(keys))
        out = {}
        chunks = [keys[i::self.num_servers] for i in range(self.num_servers)]
        threads = [threading.Thread(target=self._run, args=(chunk, out)) for chunk in chunks if chunk]
        for thread in threads:
            thread.start()
        for thread in threads:
            thread.join()
        missing = [key for key in keys if key not in out]
        if missing:
            print('infrastructure problem: %d fresh evaluations missing' % len(missing))
            sys.exit(2)
        return out


def evaluate_in_separate_process(key):
    proc = subprocess.run([PYTHON, ME, ROOT, '--eval-one'], input=key, stdout=subprocess.PIPE,
                          universal_newlines=True, check=True)
    return json.loads(proc.stdout)


# ----------------------------------------------------------------------------------------------
# recording
# ----------------------------------------------------------------------------------------------
class Recorder(object):

    def __init__(self):
        self.observations = []  # (label, key, encoded)
        self.failures = []      # immediate (non-comparison) failures
        self.checks = 0

    def call(self, label, obj, spec, x):
        encoded = evaluate(obj, x)
        self.observations.append((label, key_of(spec, x), encoded))
        return encoded

    def observe(self, label, spec, x, encoded):
        self.observations.append((label, key_of(spec, x), encoded))

    def require(self, cond, label, message):
        self.checks += 1
        if not cond:
            self.failures.append('%s: %s' % (label, message))

    def merge(self, other):
        self.observations.extend(other.observations)
        self.failures.extend(other.failures)
        self.checks += other.checks


def describe(encoded):
    if 'exc' in encoded:
        return 'raises %s(%r)' % tuple(encoded['exc'])
    if 'record' in encoded:
        return 'record(' + ', '.join('%s=%s' % (n, describe(v)) for n, v in encoded['record']) + ')'
    if 'seq' in encoded:
        return '(' + ', '.join(describe(v) for v in encoded['seq']) + ')'
    if 'repr' in encoded:
        return encoded['repr']
    arr = np.frombuffer(bytes.fromhex(encoded['hex']), dtype=np.dtype(encoded['dtype']))
    return '%s%s %s' % (encoded['dtype'], tuple(encoded['shape']),
                        np.array2string(arr.reshape(encoded['shape']), precision=17, threshold=8))


# ----------------------------------------------------------------------------------------------
# configuration pool
# ----------------------------------------------------------------------------------------------
SCALAR_POINTS = [0.0, 1.0, 0.5, -2.25, 7.6564547238847105, 2.2204460492503134e-14, [0.25, 1.5, 3.0],
                 [[0.1, 0.2], [0.3, 0.4]]]
POINTS = dict(Derivative=SCALAR_POINTS,
              Jacobian=[[1.0, 2.0], [0.5, -0.75], [3.0, 0.125]],
              Gradient=[[1.0, 1.0], [0.5, -0.75], [2.0, 3.0]],
              Hessdiag=[[1.0, 2.0, 3.0], [0.5, -0.25, 1.75]],
              Hessian=[[1.0, 1.0], [0.5, -0.75], [0.0, 0.0]])
FUNS = dict(Derivative=['exp', 'cos', 'poly', 'tanh', 'recip', 'sinh'],
            Jacobian=['sq', 'vec3'], Gradient=['rosen', 'sumsq'], Hessdiag=['hd'],
            Hessian=['rosen', 'cosdiff'])
REAL_METHODS = ['central', 'forward', 'backward']
COMPLEX_METHODS = ['complex', 'multicomplex']
GENERATORS = [dict(gen='MinStepGenerator', kw=dict(num_steps=10)),
              dict(gen='MinStepGenerator', kw=dict(base_step=1e-3, step_ratio=2.0, num_steps=8,
                                                   num_extrap=2)),
              dict(gen='MaxStepGenerator', kw=dict(base_step=0.5, num_steps=12, step_ratio=1.7)),
              dict(gen='MaxStepGenerator', kw=dict()),
              dict(gen='MinStepGenerator', kw=dict(num_steps=7, step_ratio=3.0, offset=1,
                                                   use_exact_steps=True))]


def valid_orders(kind, method):
    if kind == 'Hessian':
        return [None]
    if method == 'multicomplex':
        return [2]
    if method == 'complex':
        return [2, 4]
    if method == 'central':
        return [2, 4, 6, 3]
    return [1, 2, 3, 4]


def valid_ns(kind, method):
    if kind != 'Derivative':
        return [None]
    if method == 'multicomplex':
        return [0, 1, 2]
    return [0, 1, 2, 3, 4]


def valid_methods(kind, real_only=False):
    methods = list(REAL_METHODS)
    if kind in ('Hessdiag', 'Hessian'):
        methods.append('central2')
    if not real_only:
        methods += ['complex'] if kind == 'Jacobian' else COMPLEX_METHODS
    return methods


def is_complex(method):
    return method in COMPLEX_METHODS


def random_spec(rng, kind=None, real_only=False, step='any'):
    kind = kind or rng.choice(['Derivative'] * 4 + ['Jacobian', 'Gradient', 'Hessdiag', 'Hessian'])
    method = rng.choice(valid_methods(kind, real_only))
    spec = dict(kind=kind, fun=rng.choice(FUNS[kind]), method=method,
                full_output=rng.random() < 0.85)
    if kind == 'Jacobian' and spec['fun'] == 'vec3' and is_complex(method):
        spec['fun'] = 'sq'
    order = rng.choice(valid_orders(kind, method))
    if order is not None:
        spec['order'] = order
    n = rng.choice(valid_ns(kind, method))
    if n is not None:
        spec['n'] = n
    if rng.random() < 0.2:
        spec['richardson_terms'] = rng.choice([1, 3])
    if step == 'any':
        step = rng.choice(['default', 'default', 'gen', 'float', 'options'])
    if step == 'gen':
        spec['step'] = rng.choice(GENERATORS)
    elif step == 'float':
        spec['step'] = rng.choice([0.01, 1e-4])
    elif step == 'options':
        spec['step_options'] = dict(num_steps=rng.choice([9, 12]), step_ratio=1.8)
    return spec


def settable_values(rng, spec, attribute):
    """A valid new value for `attribute` given the rest of spec (real <-> real, or any with
    default steps), or None."""
    kind, method = spec['kind'], spec['method']
    if attribute == 'n':
        if kind != 'Derivative':
            return None
        return rng.choice(valid_ns(kind, method))
    if attribute == 'order':
        if kind == 'Hessian':
            return None
        return rng.choice(valid_orders(kind, method))
    default_step = spec.get('step') is None
    candidates = []
    for new in valid_methods(kind):
        if is_complex(new) != is_complex(method) and not default_step:
            continue  # a user supplied step: only the property's "real-step method" changes
        if spec.get('order') not in valid_orders(kind, new) + [None]:
            continue
        if spec.get('n') not in valid_ns(kind, new) + [None]:
            continue
        if kind == 'Jacobian' and spec['fun'] == 'vec3' and is_complex(new):
            continue
        candidates.append(new)
    return rng.choice(candidates) if candidates else None


# ----------------------------------------------------------------------------------------------
# cache operations
# ----------------------------------------------------------------------------------------------
def clear_cache():
    _fd.FD_RULES.clear()


def prewarm_cache(rng=None):
    rules = []
    for cls in (_fd.LogRule, _fd.LogJacobianRule, _fd.LogHessdiagRule):
        for method in ('central', 'forward', 'backward', 'complex'):
            for order in (1, 2, 3, 4, 6):
                for n in (1, 2, 3, 4):
                    for step_ratio in (2.0, 1.6, 1.7, 1.8, 3.0):
                        rules.append((cls, n, method, order, step_ratio))
    if rng is not None:
        rng.shuffle(rules)
        rules = rules[:rng.randrange(1, len(rules))]
    for cls, n, method, order, step_ratio in rules:
        try:
            cls(n=n, method=method, order=order).rule(step_ratio)
        except Exception:  # pylint: disable=broad-except
            pass


# ----------------------------------------------------------------------------------------------
# environment guards
# ----------------------------------------------------------------------------------------------
class Environment(object):
    """numpy error state + warnings filters must be left alone by every call"""

    def __init__(self, rec, label):
        self.rec, self.label = rec, label

    def __enter__(self):
        self.err = np.geterr()
        self.filters = list(warnings.filters)
        return self

    def __exit__(self, *exc_info):
        self.rec.require(np.geterr() == self.err, self.label, 'numpy error state leaked: %r -> %r'
                         % (self.err, np.geterr()))
        self.rec.require(list(warnings.filters) == self.filters, self.label,
                         'warnings filters leaked')
        return False


def snapshot(obj):
    """Observable configuration of a derivative object"""
    try:
        rich = obj.richardson
        return (obj.n, obj.order, obj.method, obj.method_order, id(obj.step), obj.full_output,
                obj.richardson_terms, (rich.step_ratio, rich.step, rich.order, rich.num_terms),
                generator_snapshot(obj.step))
    except Exception as exc:  # pylint: disable=broad-except
        return ('object is broken', type(exc).__name__, str(exc))


def generator_snapshot(gen):
    state = getattr(gen, '_state', None)
    if state is None:
        return None
    return (np.asarray(state.x).tobytes(), state.method, state.n, state.order)


# ----------------------------------------------------------------------------------------------
# scenarios
# ----------------------------------------------------------------------------------------------
def scenario_reuse(rec, rng, quick):
    """one object, many points, repeated and interleaved with other objects"""
    label = 'reuse'
    specs = [random_spec(rng) for _ in range(6 if quick else 16)]
    specs.append(dict(kind='Derivative', fun='exp', method='central', full_output=True))
    specs.append(dict(kind='Derivative', fun='cos', method='complex', n=2, full_output=True))
    objs = [(build(spec), spec) for spec in specs]
    with Environment(rec, label):
        for _ in range(3):
            order = list(range(len(objs)))
            rng.shuffle(order)
            for i in order:
                obj, spec = objs[i]
                points = list(POINTS[spec['kind']])
                rng.shuffle(points)
                for x in points[:4]:
                    rec.call(label, obj, spec, x)


def scenario_shared_generators(rec, rng, quick):
    """one generator instance used by objects with different method / n / order / x shape"""
    label = 'shared-generator'
    for desc in GENERATORS:
        gen = make_generator(desc)
        members = []
        for _ in range(4 if quick else 7):
            spec = random_spec(rng, step='default')
            spec['step'] = desc
            members.append((build(spec, generator=gen), spec))
        for obj, _spec in members:
            rec.require(obj.step is gen, label, 'generator instance was not used as given')
        with Environment(rec, label):
            for _ in range(3):
                rng.shuffle(members)
                for obj, spec in members:
                    for x in rng.sample(POINTS[spec['kind']], 2):
                        rec.call(label, obj, spec, x)
        # the generator used directly in between
        list(gen(np.array([1.0, 200.0, 3e5]), 'complex', 4, 4))
        for obj, spec in members:
            rec.call(label + '/after direct use', obj, spec, POINTS[spec['kind']][0])


REJECTED = dict(n=[-1, 2.5, 'two', None, float('nan')],
                order=[0, -2, 2.5, 'high', None],
                method=['bogus', 'Central', '', None, 3, 'central3'])


def try_rejected(rec, label, obj, attribute, value):
    before = snapshot(obj)
    old_value = getattr(obj, attribute)
    try:
        setattr(obj, attribute, value)
    except ValueError:
        raised = True
    except Exception as exc:  # pylint: disable=broad-except
        rec.require(False, label, 'setting %s=%r raised %s instead of ValueError'
                    % (attribute, value, type(exc).__name__))
        raised = True
    else:
        raised = False
    rec.require(raised, label, 'setting %s=%r was not rejected' % (attribute, value))
    rec.require(snapshot(obj) == before, label,
                'object changed by rejected %s=%r: %r -> %r' % (attribute, value, before,
                                                                 snapshot(obj)))
    if not raised:  # keep going with a usable object
        setattr(obj, attribute, old_value)


def scenario_set_restore(rec, rng, quick):
    """change n / order / method (accepted and rejected values) and restore"""
    label = 'set-restore'
    for i in range(10 if quick else 30):
        kind = rng.choice(['Derivative'] * 3 + ['Jacobian', 'Gradient', 'Hessdiag'])
        spec = random_spec(rng, kind=kind)
        original = dict(spec)
        obj = build(spec)
        x_all = POINTS[kind]
        rec.call(label, obj, spec, x_all[0])
        with Environment(rec, label):
            for _ in range(5):
                attribute = rng.choice(['n', 'order', 'method'])
                if rng.random() < 0.35:
                    if kind in ('Hessdiag', 'Hessian') and attribute == 'n':
                        continue  # documented: n is fixed, assignments are ignored
                    try_rejected(rec, label, obj, attribute, rng.choice(REJECTED[attribute]))
                else:
                    value = settable_values(rng, spec, attribute)
                    if value is None:
                        continue
                    setattr(obj, attribute, value)
                    spec = dict(spec)
                    spec[attribute] = value
                    rec.require(getattr(obj, attribute) == value, label,
                                '%s setter did not take' % attribute)
                rec.call(label + '/changed', obj, spec, rng.choice(x_all))
            # restore
            for attribute in ('method', 'n', 'order'):
                if attribute in original and spec.get(attribute) != original[attribute]:
                    # restore in an order that is always valid: method first may be invalid for
                    # the current n (multicomplex) -> go through a neutral configuration
                    pass
            restore(obj, spec, original)
            for x in x_all[:3]:
                rec.call(label + '/restored', obj, original, x)
    # invalid combinations are rejected atomically
    obj = nd.Derivative(np.exp, method='multicomplex', n=2, full_output=True)
    try_rejected(rec, label, obj, 'n', 3)
    obj = nd.Derivative(np.exp, method='central', n=4, full_output=True)
    try_rejected(rec, label, obj, 'method', 'multicomplex')
    rec.call(label + '/after invalid combination', obj,
             dict(kind='Derivative', fun='exp', method='central', n=4, full_output=True), 1.0)
    for kwds in (dict(n=-1), dict(order=2.5), dict(method='bogus'), dict(method='multicomplex', n=3),
                 dict(order=0), dict(n='1')):
        try:
            nd.Derivative(np.exp, **kwds)
        except ValueError:
            ok = True
        except Exception:  # pylint: disable=broad-except
            ok = False
        else:
            ok = False
        rec.require(ok, label, 'constructor accepted %r (or raised the wrong type)' % (kwds,))


def restore(obj, current, original):
    """Bring obj back from `current` to `original` through valid intermediate configurations"""
    if current.get('method') != original.get('method'):
        if 'n' in original and obj.n > 2 and original['method'] == 'multicomplex':
            obj.n = original['n']
        if 'order' in original and original['method'] == 'multicomplex':
            obj.order = original['order']
        obj.method = original['method']
    if 'n' in original and obj.n != original['n']:
        obj.n = original['n']
    if 'order' in original and obj.order != original['order']:
        obj.order = original['order']


def scenario_method_boundary(rec, rng, quick):
    """default-step objects: a method change behaves like constructing with that method"""
    label = 'method-boundary'
    for kind in ['Derivative', 'Gradient', 'Hessdiag', 'Hessian', 'Jacobian']:
        fun = FUNS[kind][0]
        base = dict(kind=kind, fun=fun, method='central', full_output=True)
        obj = build(base)
        first = obj.step
        x = POINTS[kind][0]
        sequence = ['complex', 'central', 'forward', 'complex', 'backward', 'complex', 'central']
        if kind != 'Jacobian':
            sequence[3] = 'multicomplex'
        rec.call(label, obj, base, x)
        for method in sequence:
            obj.method = method
            spec = dict(base, method=method)
            rec.call(label, obj, spec, x)
            rec.call(label, obj, spec, POINTS[kind][1])
        rec.require(obj.step is first, label, 'default generator identity lost after restore')
        # step options must survive the re-selection
        spec = dict(base, step_options=dict(num_steps=11, step_ratio=1.9))
        obj = build(spec)
        for method in ['complex', 'forward', 'central']:
            obj.method = method
            rec.call(label + '/options', obj, dict(spec, method=method), x)
        # user supplied generator: never replaced
        gen = nd.MinStepGenerator(num_steps=9)
        spec = dict(base, step=dict(gen='MinStepGenerator', kw=dict(num_steps=9)))
        obj = build(spec, generator=gen)
        for method in ['forward', 'central', 'backward']:
            obj.method = method
            rec.require(obj.step is gen, label, 'user generator replaced')
            rec.call(label + '/user-generator', obj, dict(spec, method=method), x)


def scenario_cache(rec, rng, quick):
    """cold / warm / differently-warmed rule cache"""
    label = 'cache'
    specs = [random_spec(rng) for _ in range(8 if quick else 20)]
    objs = [(build(spec), spec) for spec in specs]
    for state in ('clear', 'prewarm-all', 'clear', 'prewarm-random', 'prewarm-random', 'clear'):
        if state == 'clear':
            clear_cache()
        elif state == 'prewarm-all':
            prewarm_cache()
        else:
            prewarm_cache(rng)
        for obj, spec in objs:
            x = rng.choice(POINTS[spec['kind']])
            rec.call(label + '/' + state, obj, spec, x)
            if rng.random() < 0.3:
                clear_cache()
    # cached rules handed out must not be corruptible by a caller
    rule = _fd.LogRule(n=1, method='central', order=4)
    first = rule.rule(2.0)
    copy = np.array(first)
    try:
        first[...] = 0
    except ValueError:
        pass
    rec.require(np.array_equal(rule.rule(2.0), copy), label, 'cached rule corrupted through view')
    clear_cache()


def scenario_exceptions(rec, rng, quick):
    """the user function raises in the middle of a call; later calls are unaffected"""
    label = 'raise-mid-call'
    cases = [dict(kind='Derivative', fun='raiser:cos', method='central', full_output=True),
             dict(kind='Derivative', fun='raiser:exp', method='forward', n=2, order=3,
                  full_output=True),
             dict(kind='Derivative', fun='raiser:exp', method='complex', n=3, full_output=True),
             dict(kind='Derivative', fun='raiser:tanh', method='central', full_output=True,
                  step=GENERATORS[0]),
             dict(kind='Jacobian', fun='raiser:sq', method='central', full_output=True),
             dict(kind='Gradient', fun='raiser:rosen', method='backward', full_output=True),
             dict(kind='Hessdiag', fun='raiser:hd', method='central', full_output=True),
             dict(kind='Hessian', fun='raiser:rosen', method='central', full_output=True),
             dict(kind='Hessian', fun='raiser:cosdiff', method='complex', full_output=False),
             dict(kind='Derivative', fun='raiser:poly', method='central', n=0, full_output=True)]
    for spec in cases:
        kind = spec['kind']
        fun = Raiser(PURE[pure_twin(spec['fun'])])
        gen = make_generator(spec['step']) if isinstance(spec.get('step'), dict) else None
        obj = build(spec, generator=gen, fun=fun)
        sibling_spec = dict(spec, fun=pure_twin(spec['fun']), method='forward')
        sibling_spec.pop('n', None)
        sibling_spec.pop('order', None)
        sibling = build(sibling_spec, generator=gen)
        xs = POINTS[kind]
        rec.call(label + '/before', obj, spec, xs[0])
        for exc in (RuntimeError, KeyboardInterrupt, ZeroDivisionError):
            for at in (1, 2, 3, 5, 8, 13):
                before = snapshot(obj)
                fun.arm(at, exc)
                raised = None
                with Environment(rec, label):
                    try:
                        obj(make_x(xs[1 % len(xs)]))
                    except exc as err:
                        raised = err
                still_armed = fun.at is not None
                fun.disarm()
                if still_armed:
                    continue  # fewer than `at` evaluations in a call: nothing was raised
                rec.require(raised is not None and 'boom' in str(raised), label,
                            '%s from the user function did not propagate' % exc.__name__)
                after = snapshot(obj)
                rec.require(after[:8] == before[:8], label,
                            'object half-updated after %s at evaluation %d: %r -> %r'
                            % (exc.__name__, at, before[:8], after[:8]))
                rec.call(label + '/after %s@%d' % (exc.__name__, at), obj, spec,
                         rng.choice(xs))
                if gen is not None:
                    rec.call(label + '/sibling after %s@%d' % (exc.__name__, at), sibling,
                             sibling_spec, rng.choice(xs))
        # set / restore after the failures as well
        if kind == 'Derivative':
            obj.n, obj.order = 2, 4 if spec['method'] != 'forward' else 2
            obj.n = spec.get('n', 1)
            obj.order = spec.get('order', 2)
        for x in xs[:3]:
            rec.call(label + '/end', obj, spec, x)
    # the failure comes after the last function evaluation (result of the wrong size)
    state = dict(bad=False)

    def sometimes_wrong_size(x):
        result = np.exp(x)
        return result[:1] if state['bad'] else result

    spec = dict(kind='Derivative', fun='exp', method='central', n=2, full_output=True)
    obj = nd.Derivative(sometimes_wrong_size, n=1, full_output=True)
    evaluate(obj, [1.0, 2.0, 3.0])
    obj.n = 2  # the next call would install another extrapolator
    before = snapshot(obj)[:8]  # (the generator legitimately remembers its last request)
    state['bad'] = True
    with Environment(rec, label):
        bad = evaluate(obj, [1.0, 2.0, 3.0])
    state['bad'] = False
    rec.require('exc' in bad and bad['exc'][0] == 'ValueError', label, 'wrong size not reported')
    rec.require(snapshot(obj)[:8] == before, label, 'object half-updated by a call that failed '
                'after the function evaluations: %r -> %r' % (before, snapshot(obj)[:8]))
    rec.call(label + '/after wrong size', obj, spec, [1.0, 2.0, 3.0])
    # a step generator that cannot produce steps for this x: nothing half-updated either
    gen = nd.MinStepGenerator(base_step=np.array([1e-3, 1e-4, 1e-5]), num_steps=6)
    spec = dict(kind='Derivative', fun='exp', method='central', full_output=True)
    obj = nd.Derivative(np.exp, step=gen, full_output=True)
    ok = evaluate(obj, [1.0, 2.0, 3.0])
    before = generator_snapshot(gen), snapshot(obj)[:8]
    bad = evaluate(obj, [1.0, 2.0])
    rec.require('exc' in bad, label, 'broadcast error expected')
    rec.require((generator_snapshot(gen), snapshot(obj)[:8]) == before, label,
                'generator / object state changed by a failed step generation')
    rec.require(evaluate(obj, [1.0, 2.0, 3.0]) == ok, label, 'result changed after failed call')


def scenario_mutation(rec, rng, quick):
    """a user function scribbling over its argument behaves exactly like its pure twin"""
    label = 'mutating-function'
    cases = [dict(kind='Derivative', fun='mut:cos', method='central', full_output=True),
             dict(kind='Derivative', fun='mut:exp', method='forward', n=2, full_output=True),
             dict(kind='Derivative', fun='mut:exp', method='complex', full_output=True),
             dict(kind='Derivative', fun='mut:poly', method='central', n=0, full_output=True),
             dict(kind='Derivative', fun='mut:tanh', method='backward', full_output=False,
                  step=GENERATORS[1]),
             dict(kind='Jacobian', fun='mut:sq', method='central', full_output=True),
             dict(kind='Gradient', fun='mut:sumsq', method='forward', full_output=True),
             dict(kind='Hessdiag', fun='mut:hd', method='central', full_output=True),
             dict(kind='Hessian', fun='mut:rosen', method='central', full_output=True),
             dict(kind='Hessian', fun='mut:rosen', method='forward', full_output=True)]
    for spec in cases:
        obj = build(spec)
        twin = dict(spec, fun=pure_twin(spec['fun']))
        for x in POINTS[spec['kind']][:3]:
            arg = make_x(x)
            keep = np.array(arg)
            for repeat in range(3):  # the same argument object again and again
                try:
                    encoded = enc(obj(arg))
                except Exception as exc:  # pylint: disable=broad-except
                    encoded = enc_exc(exc)
                # compared with the fresh evaluation of the mutating function AND of its twin
                rec.observe(label + '/call %d' % repeat, spec, x, encoded)
                rec.observe(label + '/twin', twin, x, encoded)
                rec.require(np.array_equal(np.asarray(arg), keep), label,
                            "caller's x was modified (%s)" % spec['fun'])


def scenario_reentrant(rec, rng, quick):
    """derivative objects used inside the function that another call differentiates"""
    label = 're-entrant'
    inner_spec = dict(kind='Derivative', fun='exp', method='central', full_output=True)
    inner = build(inner_spec)
    shared = nd.MaxStepGenerator(base_step=0.5, num_steps=12, step_ratio=1.7)
    inner2_spec = dict(kind='Derivative', fun='cos', method='forward', n=2, full_output=True,
                       step=GENERATORS[2])
    inner2 = build(inner2_spec, generator=shared)
    seen = []

    def outer_fun(x):
        # uses other objects (and the outer object's own generator) in the middle of a call
        seen.append(evaluate(inner, 0.5))
        seen.append(evaluate(inner2, 1.0))
        return np.sinh(x)

    outer_spec = dict(kind='Derivative', fun='sinh', method='forward', order=3, full_output=True,
                      step=GENERATORS[2])
    outer = build(outer_spec, generator=shared, fun=outer_fun)
    for x in (0.0, 1.0, -2.25):
        rec.call(label + '/outer', outer, outer_spec, x)
    for i, encoded in enumerate(seen):
        rec.observe(label + '/inner', [inner_spec, inner2_spec][i % 2], [0.5, 1.0][i % 2], encoded)
    # the same object re-entered through its own function
    depth = []

    def self_fun(x):
        if not depth:
            depth.append(1)
            try:
                seen.append(evaluate(recursive, 0.25))
            finally:
                depth.pop()
        return np.tanh(x)

    rec_spec = dict(kind='Derivative', fun='tanh', method='central', order=4, full_output=True)
    recursive = build(rec_spec, fun=self_fun)
    del seen[:]
    rec.call(label + '/self outer', recursive, rec_spec, 1.0)
    for encoded in seen:
        rec.observe(label + '/self inner', rec_spec, 0.25, encoded)


OPERATIONS = ['construct', 'call', 'call', 'call', 'set', 'set', 'share', 'cache', 'reject']


def random_history(rec, rng, label, length=12, pool=None):
    """A random operation sequence (the property's quantifier)"""
    pool = [] if pool is None else pool  # [obj, spec, generator-or-None]
    generators = []
    for _ in range(length):
        op = rng.choice(OPERATIONS) if pool else 'construct'
        if op == 'construct':
            spec = random_spec(rng)
            pool.append([build(spec), spec, None])
        elif op == 'share':
            if not generators or rng.random() < 0.4:
                desc = rng.choice(GENERATORS)
                generators.append((make_generator(desc), desc))
            gen, desc = rng.choice(generators)
            spec = random_spec(rng, step='default')
            spec['step'] = desc
            pool.append([build(spec, generator=gen), spec, gen])
        elif op == 'call':
            obj, spec, _gen = rng.choice(pool)
            rec.call(label, obj, spec, rng.choice(POINTS[spec['kind']]))
        elif op == 'set':
            entry = rng.choice(pool)
            obj, spec, _gen = entry
            attribute = rng.choice(['n', 'order', 'method'])
            value = settable_values(rng, spec, attribute)
            if value is not None:
                setattr(obj, attribute, value)
                entry[1] = dict(spec)
                entry[1][attribute] = value
        elif op == 'reject':
            obj, spec, _gen = rng.choice(pool)
            attribute = rng.choice(['n', 'order', 'method'])
            if not (spec['kind'] in ('Hessdiag', 'Hessian') and attribute in ('n', 'order')):
                try_rejected(rec, label, obj, attribute, rng.choice(REJECTED[attribute]))
        elif op == 'cache':
            if rng.random() < 0.5:
                clear_cache()
            else:
                prewarm_cache(rng)
    # every object gets called at the end of the history
    for obj, spec, _gen in pool:
        rec.call(label + '/final', obj, spec, rng.choice(POINTS[spec['kind']]))
    return pool


def scenario_random_histories(rec, rng, quick):
    for i in range(25 if quick else 90):
        with Environment(rec, 'history'):
            random_history(rec, rng, 'history-%d' % i)


def scenario_threads(rec, rng, quick, num_threads=8):
    """disjoint objects (and disjoint generators) in concurrent threads"""
    label = 'threads'
    old_interval = sys.getswitchinterval()
    sys.setswitchinterval(1e-5)
    try:
        for round_no in range(2 if quick else 4):
            clear_cache()  # the threads race to (re)populate the rule cache
            barrier = threading.Barrier(num_threads)
            recorders = [Recorder() for _ in range(num_threads)]
            errors = []

            def work(index, seed):
                local = random.Random(seed)
                mine = recorders[index]
                try:
                    barrier.wait()
                    pool = None
                    for k in range(3):
                        pool = random_history_threadsafe(mine, local, '%s-%d/t%d'
                                                         % (label, round_no, index), pool)
                except BaseException as exc:  # pylint: disable=broad-except
                    errors.append('thread %d: %s: %s' % (index, type(exc).__name__, exc))

            threads = [threading.Thread(target=work, args=(i, rng.randrange(1 << 30)))
                       for i in range(num_threads)]
            with Environment(rec, label):  # process wide state after concurrent use
                for thread in threads:
                    thread.start()
                for thread in threads:
                    thread.join()
            for message in errors:
                rec.require(False, label, message)
            for mine in recorders:
                rec.merge(mine)
    finally:
        sys.setswitchinterval(old_interval)


def random_history_threadsafe(rec, rng, label, pool):
    """random_history without the process-global cache operations done by the other scenarios
    (the property's concurrency clause is about disjoint objects)"""
    pool = [] if pool is None else pool
    generators = []
    for _ in range(12):
        op = rng.choice(['construct', 'call', 'call', 'call', 'set', 'share', 'reject'])
        if not pool:
            op = 'construct'
        if op == 'construct':
            spec = random_spec(rng)
            pool.append([build(spec), spec, None])
        elif op == 'share':  # shared between objects of THIS thread only
            if not generators or rng.random() < 0.4:
                desc = rng.choice(GENERATORS)
                generators.append((make_generator(desc), desc))
            gen, desc = rng.choice(generators)
            spec = random_spec(rng, step='default')
            spec['step'] = desc
            pool.append([build(spec, generator=gen), spec, gen])
        elif op == 'call':
            obj, spec, _gen = rng.choice(pool)
            rec.call(label, obj, spec, rng.choice(POINTS[spec['kind']]))
        elif op == 'set':
            entry = rng.choice(pool)
            obj, spec, _gen = entry
            attribute = rng.choice(['n', 'order', 'method'])
            value = settable_values(rng, spec, attribute)
            if value is not None:
                setattr(obj, attribute, value)
                entry[1] = dict(spec)
                entry[1][attribute] = value
        elif op == 'reject':
            obj, spec, _gen = rng.choice(pool)
            attribute = rng.choice(['n', 'order', 'method'])
            if not (spec['kind'] in ('Hessdiag', 'Hessian') and attribute in ('n', 'order')):
                try_rejected(rec, label, obj, attribute, rng.choice(REJECTED[attribute]))
    for obj, spec, _gen in pool:
        rec.call(label + '/final', obj, spec, rng.choice(POINTS[spec['kind']]))
    return pool


def scenario_results_api(rec, rng, quick):
    """info records are immutable; directionaldiff forwards full_output"""
    label = 'results-api'
    obj = nd.Derivative(np.exp, full_output=True)
    value, info = obj(np.array([1.0, 2.0]))
    rec.require(tuple(info._fields) == ('f_value', 'error_estimate', 'final_step', 'index'), label,
                'info fields changed')
    for name in info._fields:
        field = getattr(info, name)
        try:
            field[...] = 0
            frozen = not isinstance(field, np.ndarray)
        except (ValueError, TypeError):
            frozen = True
        rec.require(frozen, label, 'info.%s is writable' % name)
    try:
        info.error_estimate = 0
        frozen = False
    except AttributeError:
        frozen = True
    rec.require(frozen, label, 'info attributes can be rebound')
    rec.require(isinstance(repr(obj), str) and 'Derivative' in repr(obj), label, 'repr')
    again, info2 = obj(np.array([1.0, 2.0]))
    rec.require(enc((again, info2)) == enc((value, info)), label, 'same call, different record')
    # extra arguments of the function (any keyword name) are passed through
    def with_parameters(x, a, f=1.0, x_i=0.0):
        return a * np.exp(f * x) + x_i

    for n in (0, 1, 2):
        got = nd.Derivative(with_parameters, n=n, full_output=True)(0.5, 2.0, f=3.0, x_i=1.0)
        want = nd.Derivative(lambda x: with_parameters(x, 2.0, f=3.0, x_i=1.0), n=n,
                             full_output=True)(0.5)
        rec.require(enc(got) == enc(want), label, 'args / kwds not passed through for n=%d' % n)
    # directionaldiff
    plain = nd.directionaldiff(_rosen, [2, 3], [1, -1])
    full = nd.directionaldiff(_rosen, [2, 3], [1, -1], full_output=True)
    rec.require(isinstance(full, tuple) and len(full) == 2 and hasattr(full[1], 'error_estimate'),
                label, 'directionaldiff(full_output=True) does not return (value, info)')
    rec.require(enc(full[0]) == enc(plain), label, 'directionaldiff value depends on full_output')
    ref = nd.Derivative(lambda t: _rosen(np.array([2, 3]) + t * (np.array([1, -1]) /
                                                                  np.linalg.norm([1, -1]))))(0)
    rec.require(enc(ref) == enc(plain), label, 'directionaldiff differs from its definition')
    for x0, vec in (([1, 2], [1, 2, 3]), ([1, 2], [0, 0]), ([], []), ([1, 2], [np.nan, 1])):
        try:
            nd.directionaldiff(_rosen, x0, vec)
            ok = False
        except ValueError:
            ok = True
        except Exception:  # pylint: disable=broad-except
            ok = False
        rec.require(ok, label, 'directionaldiff accepted x0=%r vec=%r' % (x0, vec))


SCENARIOS = [scenario_results_api, scenario_reuse, scenario_shared_generators, scenario_set_restore,
             scenario_method_boundary, scenario_cache, scenario_exceptions, scenario_mutation,
             scenario_reentrant, scenario_random_histories, scenario_threads]


# ----------------------------------------------------------------------------------------------
def reference_corpus():
    """A fixed corpus of (configuration, point) keys used by --dump (before/after comparison)"""
    rng = random.Random(20260303)
    keys = set()
    for _ in range(700):
        spec = random_spec(rng)
        for x in rng.sample(POINTS[spec['kind']], 2):
            keys.add(key_of(spec, x))
    return sorted(keys)


def main(argv):
    seed = 12345
    quick = '--quick' in argv
    verbose = '--verbose' in argv
    if '--seed' in argv:
        seed = int(argv[argv.index('--seed') + 1])
    fresh = FreshEvaluator(num_servers=min(8, os.cpu_count() or 2))

    if '--dump' in argv:
        target = argv[argv.index('--dump') + 1]
        results = fresh(reference_corpus())
        with open(target, 'w') as stream:
            json.dump(results, stream, sort_keys=True, indent=0)
        print('dumped %d fresh evaluations to %s' % (len(results), target))
        return 0

    rng = random.Random(seed)
    rec = Recorder()
    only = argv[argv.index('--only') + 1].split(',') if '--only' in argv else None
    for scenario in SCENARIOS:
        if only and scenario.__name__.replace('scenario_', '') not in only:
            continue
        before = len(rec.observations)
        try:
            scenario(rec, rng, quick)
        except Exception as exc:  # pylint: disable=broad-except
            rec.failures.append('%s crashed: %s: %s' % (scenario.__name__, type(exc).__name__, exc))
        print('%-28s %5d observations' % (scenario.__name__, len(rec.observations) - before))

    keys = sorted(set(key for _label, key, _enc in rec.observations))
    print('evaluating %d distinct (configuration, point) pairs in pristine interpreter state ...'
          % len(keys))
    expected = fresh(keys)

    # cross-check of the fork server with completely separate interpreters
    sample = random.Random(seed + 1).sample(keys, min(len(keys), 6 if quick else 16))
    for key in sample:
        separate = evaluate_in_separate_process(key)
        if separate != expected[key]:
            rec.failures.append('fork-server and separate interpreter disagree for %s' % key)

    mismatches = []
    num_exc = 0
    for label, key, encoded in rec.observations:
        want = expected[key]
        num_exc += 'exc' in want
        if encoded != want:
            mismatches.append((label, key, encoded, want))
    print('observations: %d, distinct: %d (of which raising: %d), other checks: %d'
          % (len(rec.observations), len(keys), sum('exc' in expected[k] for k in keys), rec.checks))
    if verbose:
        for key in keys:
            if 'exc' in expected[key]:
                print('  raising:', key, expected[key]['exc'])
    shown = 0
    for label, key, got, want in mismatches:
        if shown < 15:
            print('MISMATCH [%s]\n   config, x: %s\n   history : %s\n   fresh   : %s'
                  % (label, key, describe(got), describe(want)))
        shown += 1
    for message in rec.failures[:40]:
        print('FAILED CHECK', message)
    if mismatches or rec.failures:
        print('C09 VIOLATED: %d mismatching observations, %d failed checks'
              % (len(mismatches), len(rec.failures)))
        return 1
    print('C09 holds for everything exercised')
    return 0


if __name__ == '__main__':
    if '--serve' in sys.argv:
        _serve()
    elif '--eval-one' in sys.argv:
        sys.stdout.write(json.dumps(evaluate_key(sys.stdin.read().strip())))
    else:
        sys.exit(main(sys.argv[2:]))
