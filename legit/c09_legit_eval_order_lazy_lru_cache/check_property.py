#!/usr/bin/env python
"""
C09 check: results depend only on (function, point, configuration), not on history.

usage:  check_property.py SOURCE_ROOT [--seed N] [--jobs N]
                          [--write-reference FILE] [--reference FILE]

SOURCE_ROOT is either the checkout (containing src/numdifftools) or the directory that
contains the numdifftools package.

The script runs a number of *histories* in this process (object reuse, shared step
generators, set/restore of n/order/method, cache clearing / flooding / pre-population,
user functions that raise at their k-th evaluation followed by normal calls, nested use
where the differentiated function calls another derivative object, 8 concurrent threads,
seeded random operation sequences of length <= 12).  Every observation made in a history
is tagged with a *descriptor* (class, function, point, configuration, step specification).
Afterwards every distinct descriptor is evaluated by a brand new object in a brand new
interpreter (one subprocess per descriptor) and the two are compared bit for bit
(value and the complete full_output record: dtype, shape, raw bytes, python type).

Exit status 0 iff every observation equals its fresh-interpreter evaluation (and, with
--reference, iff the fresh evaluations equal the ones stored in FILE, e.g. produced from
the unpatched tree with --write-reference).
"""
from __future__ import print_function

import json
import os
import random
import subprocess
import sys
import threading
import warnings
from concurrent.futures import ThreadPoolExecutor


def _source_dir(root):
    root = os.path.abspath(root)
    if os.path.isdir(os.path.join(root, 'src', 'numdifftools')):
        return os.path.join(root, 'src')
    return root


if len(sys.argv) < 2:
    sys.exit(__doc__)

# identical numerical environment for this process and for the fresh interpreters
for _name in ('OPENBLAS_NUM_THREADS', 'OMP_NUM_THREADS', 'MKL_NUM_THREADS'):
    os.environ.setdefault(_name, '1')

ROOT = sys.argv[1]
sys.path.insert(0, _source_dir(ROOT))

import numpy as np  # noqa: E402
from scipy import linalg as _splinalg  # noqa: E402
import numdifftools as nd  # noqa: E402
import numdifftools.core as nd_core  # noqa: E402
import numdifftools.finite_difference as nd_fd  # noqa: E402
import numdifftools.limits as nd_limits  # noqa: E402
import numdifftools.step_generators as nd_sg  # noqa: E402

assert os.path.abspath(nd.__file__).startswith(_source_dir(ROOT)), nd.__file__

warnings.simplefilter('ignore')


# --------------------------------------------------------------------------------------
# pure user functions (work for real, complex and bicomplex arguments)
# --------------------------------------------------------------------------------------
def f_exp(x):
    return np.exp(x)


def f_poly(x):
    return x ** 3 + 2.0 * x ** 2 - x


def f_sinexp(x):
    return np.sin(x) * np.exp(0.5 * x)


def f_tanh(x):
    return np.tanh(x)


def f_rosen(x):
    return (1.0 - x[0]) ** 2 + 105.0 * (x[1] - x[0] ** 2) ** 2


def f_cosdiff(x):
    return np.cos(x[0] - x[1]) + x[1] * np.exp(x[0])


def f_sum3(x):
    return x[0] + x[1] ** 2 + x[2] ** 3 + x[0] * x[1] * x[2]


def f_vec(x):
    return np.array([x[0] * x[1] ** 2, np.exp(x[0]) + x[1]])


def f_sinc(x):
    return np.sin(x) / x


def f_expm1_ratio(x):
    return (x * np.exp(x) - np.expm1(x)) / x ** 2


FUNS = dict(exp=f_exp, poly=f_poly, sinexp=f_sinexp, tanh=f_tanh, rosen=f_rosen,
            cosdiff=f_cosdiff, sum3=f_sum3, vec=f_vec, sinc=f_sinc,
            expm1_ratio=f_expm1_ratio)

CLASSES = dict(Derivative=nd.Derivative, Gradient=nd.Gradient, Jacobian=nd.Jacobian,
               Hessdiag=nd.Hessdiag, Hessian=nd.Hessian, Limit=nd_limits.Limit,
               Residue=nd_limits.Residue)


# --------------------------------------------------------------------------------------
# descriptors
# --------------------------------------------------------------------------------------
def make_step(spec):
    """Returns a new step argument from its specification."""
    if spec is None:
        return None
    kind = spec['kind']
    if kind == 'float':
        return spec['value']
    kwds = dict(spec.get('kw', {}))
    if kind == 'min':
        return nd_sg.MinStepGenerator(**kwds)
    if kind == 'max':
        return nd_sg.MaxStepGenerator(**kwds)
    if kind == 'cstep':
        return nd_limits.CStepGenerator(**kwds)
    if kind == 'one_step':
        return nd_sg.one_step
    raise ValueError(kind)


def make_fun(fun_spec, shared_steps=None):
    if isinstance(fun_spec, dict):  # nested: the function calls another derivative object
        inner = build(fun_spec['nested'], shared_steps=shared_steps)

        def nested(x, _inner=inner):
            return _inner(x)[0]
        nested.inner = inner
        return nested
    return FUNS[fun_spec]


def build(desc, step=None, shared_steps=None, fun=None):
    """Returns a new object (always full_output=True) described by desc."""
    if fun is None:
        fun = make_fun(desc['fun'], shared_steps)
    if step is None:
        spec = desc.get('step')
        share_id = None if spec is None else spec.get('share')
        if shared_steps is not None and share_id is not None:
            if share_id not in shared_steps:
                shared_steps[share_id] = make_step(spec)
            step = shared_steps[share_id]
        else:
            step = make_step(spec)
    return CLASSES[desc['cls']](fun, step=step, full_output=True, **desc.get('kw', {}))


def strip_share(desc):
    """The descriptor as a fresh interpreter sees it: sharing is history, not configuration."""
    out = dict(desc)
    fun = out['fun']
    if isinstance(fun, dict):
        out['fun'] = {'nested': strip_share(fun['nested'])}
    spec = out.get('step')
    if spec is not None:
        spec = dict(spec)
        spec.pop('share', None)
        out['step'] = spec
    return out


def key_of(desc, x):
    return json.dumps([strip_share(desc), x], sort_keys=True)


def canon(obj):
    """Bit exact canonical form of a result."""
    if isinstance(obj, tuple) and hasattr(obj, '_fields'):
        return {'namedtuple': type(obj).__name__,
                'fields': [[name, canon(getattr(obj, name))] for name in obj._fields]}
    if isinstance(obj, (tuple, list)):
        return {type(obj).__name__: [canon(item) for item in obj]}
    arr = np.asarray(obj)
    if arr.dtype == object:
        return {'object': repr(obj)}
    return {'type': type(obj).__name__, 'dtype': arr.dtype.str, 'shape': list(arr.shape),
            'bytes': np.ascontiguousarray(arr).tobytes().hex()}


def evaluate(obj, x):
    try:
        with warnings.catch_warnings():
            warnings.simplefilter('ignore')
            return canon(obj(x))
    except Exception as error:  # pylint: disable=broad-except
        return {'exception': type(error).__name__}


# --------------------------------------------------------------------------------------
# fresh interpreter evaluation
# --------------------------------------------------------------------------------------
def fresh_worker():
    desc, x = json.loads(sys.stdin.read())
    sys.stdout.write(json.dumps(evaluate(build(desc), x), sort_keys=True))


def fresh_eval(key):
    proc = subprocess.run([sys.executable, os.path.abspath(__file__), ROOT, '--fresh-worker'],
                          input=key, capture_output=True, text=True)
    if proc.returncode != 0:
        raise RuntimeError('fresh worker failed for %s:\n%s' % (key, proc.stderr))
    return json.loads(proc.stdout)


# --------------------------------------------------------------------------------------
# observations
# --------------------------------------------------------------------------------------
class Recorder(object):
    def __init__(self):
        self.lock = threading.Lock()
        self.items = []

    def observe(self, label, obj, desc, x):
        got = evaluate(obj, x)
        with self.lock:
            self.items.append((label, key_of(desc, x), got))
        return got


def with_kw(desc, **kwds):
    out = dict(desc)
    out['kw'] = dict(desc.get('kw', {}), **kwds)
    return out


def D(cls, fun, step=None, **kwds):
    return dict(cls=cls, fun=fun, step=step, kw=kwds)


X_SCALAR = [0.5, 1.0, -0.75, 2.0, [0.25, 1.5, 3.0]]
X_VEC2 = [[1.0, 1.0], [0.5, -0.25], [2.0, 0.5]]
X_VEC3 = [[1.0, 2.0, 3.0], [0.5, 0.25, -1.0]]

STEP_SPECS = [None,
              {'kind': 'float', 'value': 0.01},
              {'kind': 'min', 'kw': {'num_steps': 5, 'step_ratio': 2.0}},
              {'kind': 'min', 'kw': {'base_step': 1e-3, 'num_extrap': 4}},
              {'kind': 'min', 'kw': {'num_extrap': 3, 'scale': 3.0, 'use_exact_steps': False}},
              {'kind': 'max', 'kw': {}},
              {'kind': 'max', 'kw': {'base_step': 1.0, 'step_ratio': 1.7, 'num_steps': 11}},
              {'kind': 'max', 'kw': {'step_nom': 1.0, 'num_steps': 9, 'offset': -1}}]


def derivative_pool():
    pool = []
    for method, orders, n_max in [('central', (2, 4), 4), ('forward', (1, 2, 3), 3),
                                  ('backward', (1, 2), 3), ('complex', (2, 4), 4),
                                  ('multicomplex', (2,), 2)]:
        for order in orders:
            for n in range(1, n_max + 1):
                pool.append((method, order, n))
    return pool


def xs_for(desc):
    cls, fun = desc['cls'], desc['fun']
    if isinstance(fun, dict):
        return xs_for(fun['nested'])
    if cls in ('Limit', 'Residue'):
        return [0.0, [0.0, 0.5]]
    if fun in ('rosen', 'cosdiff', 'vec'):
        return X_VEC2
    if fun == 'sum3':
        return X_VEC3
    return X_SCALAR


def config_pool():
    pool = []
    funs = ['exp', 'poly', 'sinexp', 'tanh']
    for i, (method, order, n) in enumerate(derivative_pool()):
        pool.append(D('Derivative', funs[i % len(funs)], method=method, order=order, n=n))
    pool.append(D('Derivative', 'exp', n=0))
    pool.append(D('Derivative', 'poly', method='central', n=2, order=2, richardson_terms=3))
    for method in ('central', 'forward', 'backward', 'complex', 'multicomplex'):
        pool.append(D('Gradient', 'rosen', method=method))
        pool.append(D('Jacobian', 'vec', method=method, order=2))
        pool.append(D('Hessdiag', 'sum3', method=method))
        pool.append(D('Hessian', 'cosdiff', method=method))
    pool.append(D('Hessian', 'rosen', method='central2'))
    pool.append(D('Hessdiag', 'sum3', method='central', order=4))
    pool.append(D('Jacobian', 'vec', method='central', order=4))
    pool.append(D('Jacobian', 'vec', method='complex', order=4))
    pool.append(D('Limit', 'sinc'))
    pool.append(D('Limit', 'expm1_ratio', method='below', order=3))
    pool.append(D('Limit', 'sinc', step={'kind': 'cstep', 'kw': {'path': 'spiral'}}))
    pool.append(D('Limit', 'sinc', step={'kind': 'cstep', 'kw': {'step_ratio': 2.0,
                                                                 'num_steps': 12}}))
    pool.append(D('Residue', 'sinc', step={'kind': 'cstep', 'kw': {'step_ratio': 3.0}}))
    return pool


# --------------------------------------------------------------------------------------
# cache manipulation through whatever the tree under test offers
# --------------------------------------------------------------------------------------
def _cache_objects():
    caches = []
    for module in (nd_fd, nd_core):
        cache = getattr(module, 'FD_RULES', None)
        if cache is not None:
            caches.append(cache)
    return caches


def clear_rule_cache():
    for name in ('clear_rule_cache', 'clear_fd_rules'):
        fun = getattr(nd_fd, name, None)
        if fun is not None:
            fun()
    for cache in _cache_objects():
        cache.clear()
    cache_clear = getattr(getattr(nd_fd, '_compute_fd_rules', None), 'cache_clear', None)
    if cache_clear is not None:
        cache_clear()


def flood_rule_cache(rng, count=80):
    """Request many distinct rules so that a bounded cache has to evict."""
    for _ in range(count):
        method = rng.choice(['central', 'forward', 'backward', 'complex'])
        n = rng.randint(1, 4)
        order = rng.choice([2, 4, 6])
        step_ratio = rng.choice([1.25, 1.5, 1.6, 1.7, 2.0, 2.5, 3.0, 4.0, 5.0, 8.0, 1.1, 1.3])
        nd_fd.LogRule(n=n, method=method, order=order).rule(step_ratio)


def prepopulate_rule_cache(rng, count=12):
    """Insert correct entries by hand (same formula as the library) when a mapping exists."""
    cache = getattr(nd_fd, 'FD_RULES', None)
    if cache is None or not hasattr(cache, '__setitem__'):
        return
    for _ in range(count):
        step_ratio = (rng.choice([1.6, 2.0, 1.7, 4.0]) + 1.0) - 1.0
        parity = rng.randint(0, 6)
        num_terms = rng.randint(1, 5)
        fd_mat = nd_fd.LogRule._fd_matrix(step_ratio, parity, num_terms)
        cache[(step_ratio, parity, num_terms)] = np.linalg.pinv(fd_mat)


# --------------------------------------------------------------------------------------
# histories
# --------------------------------------------------------------------------------------
def history_reuse(rec, pool):
    """The same object is called at several points, twice, in both directions."""
    for desc in pool:
        obj = build(desc)
        xs = xs_for(desc)
        for x in xs + xs[::-1]:
            rec.observe('reuse', obj, desc, x)


def history_shared_generators(rec, rng):
    """One generator instance serves objects with different method / n / order."""
    for spec in STEP_SPECS[2:]:
        shared = make_step(spec)
        descs = [D('Derivative', 'exp', step=spec, method='central', n=1, order=2),
                 D('Derivative', 'poly', step=spec, method='central', n=3, order=4),
                 D('Derivative', 'sinexp', step=spec, method='forward', n=2, order=2),
                 D('Derivative', 'tanh', step=spec, method='complex', n=2, order=2),
                 D('Derivative', 'exp', step=spec, method='multicomplex', n=1, order=2),
                 D('Gradient', 'rosen', step=spec, method='backward'),
                 D('Jacobian', 'vec', step=spec, method='central', order=4),
                 D('Hessdiag', 'sum3', step=spec, method='central'),
                 D('Hessian', 'cosdiff', step=spec, method='forward')]
        objs = [build(desc, step=shared) for desc in descs]
        todo = [(obj, desc, x) for obj, desc in zip(objs, descs) for x in xs_for(desc)[:2]]
        rng.shuffle(todo)
        for obj, desc, x in todo:
            rec.observe('shared-generator', obj, desc, x)
        # the generator is also used directly by the user in between
        list(shared(np.asarray([7.0, 8.0, 9.0]), 'complex', 4, 4))
        for obj, desc, x in todo[::-1]:
            rec.observe('shared-generator-2', obj, desc, x)


def history_set_restore(rec):
    """n / order / (real step) method are changed and restored on a live object."""
    for spec in (None, STEP_SPECS[2], STEP_SPECS[6]):
        for method, order, n in [('central', 2, 1), ('central', 4, 2), ('forward', 2, 1),
                                 ('backward', 1, 3), ('central', 2, 4)]:
            desc = D('Derivative', 'sinexp', step=spec, method=method, order=order, n=n)
            obj = build(desc)
            x = 0.5
            rec.observe('set-restore:start', obj, desc, x)
            for attr, values in [('n', (3, 2, 0, 1, 4)), ('order', (4, 6, 1, 2)),
                                 ('method', ('forward', 'central', 'backward'))]:
                original = desc['kw'][attr]
                for value in values:
                    setattr(obj, attr, value)
                    rec.observe('set-restore:changed-' + attr, obj,
                                with_kw(desc, **{attr: value}), x)
                    setattr(obj, attr, original)
                    rec.observe('set-restore:restored-' + attr, obj, desc, x)
                # change without calling in between, then restore
                for value in values:
                    setattr(obj, attr, value)
                setattr(obj, attr, original)
                rec.observe('set-restore:silent-' + attr, obj, desc, 1.0)
            # change two at once
            obj.n, obj.order = 2, 4
            rec.observe('set-restore:both', obj, with_kw(desc, n=2, order=4), x)
            obj.n, obj.order = n, order
            rec.observe('set-restore:both-restored', obj, desc, x)
    for cls, fun in [('Jacobian', 'vec'), ('Gradient', 'rosen'), ('Hessdiag', 'sum3')]:
        desc = D(cls, fun, method='central', order=2)
        obj = build(desc)
        x = xs_for(desc)[0]
        rec.observe('set-restore:start', obj, desc, x)
        for attr, values in [('order', (4, 2)), ('method', ('forward', 'backward', 'central'))]:
            original = desc['kw'][attr]
            for value in values:
                setattr(obj, attr, value)
                rec.observe('set-restore:changed-' + attr, obj, with_kw(desc, **{attr: value}), x)
                setattr(obj, attr, original)
                rec.observe('set-restore:restored-' + attr, obj, desc, x)
    desc = D('Hessian', 'cosdiff', method='central')
    obj = build(desc)
    x = [0.5, -0.25]
    for method in ('forward', 'central2', 'backward', 'central'):
        obj.method = method
        rec.observe('set-restore:hessian-' + method, obj, with_kw(desc, method=method), x)
    # the low level rule objects as well
    rule = nd_fd.LogRule(n=1, method='central', order=2)
    first = [rule.rule(2.0).tolist(), rule.diff.__name__, rule.method_order,
             rule.richardson_step, rule.eval_first_condition]
    rule.n, rule.method, rule.order = 4, 'complex', 6
    other = [rule.rule(2.0).tolist(), rule.diff.__name__, rule.method_order,
             rule.richardson_step, rule.eval_first_condition]
    fresh_other = nd_fd.LogRule(n=4, method='complex', order=6)
    assert other == [fresh_other.rule(2.0).tolist(), fresh_other.diff.__name__,
                     fresh_other.method_order, fresh_other.richardson_step,
                     fresh_other.eval_first_condition], 'stale rule data after setters'
    rule.n, rule.method, rule.order = 1, 'central', 2
    again = [rule.rule(2.0).tolist(), rule.diff.__name__, rule.method_order,
             rule.richardson_step, rule.eval_first_condition]
    assert first == again and first != other, 'stale rule data after restore'


def history_cache(rec, pool, rng):
    """Cold, cleared, flooded (eviction) and hand populated rule cache."""
    objs = [(build(desc), desc) for desc in pool]
    for round_no, action in enumerate(['clear', 'flood', 'prepopulate', 'clear+flood', 'clear']):
        if 'clear' in action:
            clear_rule_cache()
        if 'flood' in action:
            flood_rule_cache(rng)
        if 'prepopulate' in action:
            prepopulate_rule_cache(rng)
        for obj, desc in objs:
            x = xs_for(desc)[round_no % 2]
            rec.observe('cache:' + action, obj, desc, x)
            if rng.random() < 0.2:
                clear_rule_cache()
            elif rng.random() < 0.2:
                flood_rule_cache(rng, 10)
    # a rule handed out earlier must not be changed by later cache traffic
    rule = nd_fd.LogRule(n=2, method='central', order=4)
    taken = rule.rule(1.6)
    snapshot = taken.copy()
    flood_rule_cache(rng, 120)
    clear_rule_cache()
    assert (taken == snapshot).all() and (rule.rule(1.6) == snapshot).all()


class RaisingFun(object):
    """Pure function that raises at its k-th evaluation while armed."""

    def __init__(self, fun, k):
        self.fun, self.k, self.count, self.armed = fun, k, 0, True

    def __call__(self, x):
        if self.armed:
            self.count += 1
            if self.count == self.k:
                raise RuntimeError('evaluation number %d fails' % self.k)
        return self.fun(x)


def history_raising(rec):
    """A user function that raises at its k-th evaluation, followed by normal calls."""
    descs = [D('Derivative', 'exp', method='central', n=1),
             D('Derivative', 'poly', method='central', n=2, order=4),
             D('Derivative', 'sinexp', method='forward', n=2),
             D('Derivative', 'tanh', method='backward', n=1),
             D('Derivative', 'exp', method='complex', n=2),
             D('Derivative', 'exp', method='multicomplex', n=2),
             D('Derivative', 'exp', step=STEP_SPECS[2], method='central', n=3),
             D('Gradient', 'rosen', method='central'),
             D('Gradient', 'rosen', method='forward'),
             D('Jacobian', 'vec', method='central', order=4),
             D('Jacobian', 'vec', method='complex'),
             D('Hessdiag', 'sum3', method='central'),
             D('Hessian', 'cosdiff', method='central'),
             D('Hessian', 'cosdiff', method='forward'),
             D('Limit', 'sinc')]
    raised = 0
    for desc in descs:
        xs = xs_for(desc)
        counter = RaisingFun(FUNS[desc['fun']], 0)
        build(desc, fun=counter)(xs[0])
        total = counter.count
        assert total > 0
        for k in sorted(set([1, 2, 3, total // 2, total - 1, total, total + 5])):
            if k < 1:
                continue
            fun = RaisingFun(FUNS[desc['fun']], k)
            obj = build(desc, fun=fun)
            try:
                obj(xs[0])
                assert k > total, 'evaluation %d of %d did not raise' % (k, total)
            except RuntimeError:
                raised += 1
                assert k <= total
            fun.armed = False
            rec.observe('raising:after-k=%d' % k, obj, desc, xs[0])
            rec.observe('raising:after-k=%d' % k, obj, desc, xs[1])
            # raise again in the middle of a later call, then carry on
            fun.count, fun.k, fun.armed = 0, max(total // 3, 1), True
            try:
                obj(xs[1])
            except RuntimeError:
                raised += 1
            fun.armed = False
            rec.observe('raising:second', obj, desc, xs[0])
    assert raised > 50, raised


def nested_descs():
    inner1 = D('Derivative', 'sinexp', method='central', n=1)
    inner2 = D('Derivative', 'poly', method='complex', n=1)
    inner3 = D('Derivative', 'exp', method='forward', n=2, order=2)
    grad = D('Gradient', 'rosen', method='central')
    grad_c = D('Gradient', 'cosdiff', method='complex')
    shared = {'kind': 'min', 'kw': {'num_steps': 4, 'base_step': 1e-2}, 'share': 'g1'}
    inner_s = D('Derivative', 'exp', step=shared, method='central', n=2, order=2)
    return [D('Derivative', {'nested': inner1}, method='central', n=1),
            D('Derivative', {'nested': inner1}, method='forward', n=1),
            D('Derivative', {'nested': inner2}, method='central', n=2),
            D('Derivative', {'nested': inner3}, method='backward', n=1),
            D('Jacobian', {'nested': grad}, method='central'),
            D('Jacobian', {'nested': grad_c}, method='forward'),
            D('Jacobian', {'nested': grad}, method='central', order=4),
            # inner and outer object share one step generator instance
            D('Derivative', {'nested': inner_s}, step=shared, method='central', n=1, order=4),
            D('Derivative', {'nested': inner_s}, step=shared, method='forward', n=3, order=1)]


def history_nested(rec):
    """The differentiated function calls another derivative object (re-entrant use)."""
    for desc in nested_descs():
        shared_steps = {}
        obj = build(desc, shared_steps=shared_steps)
        inner = obj.fun.inner
        inner_desc = desc['fun']['nested']
        xs = xs_for(desc)
        for x in xs[:3]:
            rec.observe('nested:outer', obj, desc, x)
            rec.observe('nested:inner-after-outer', inner, inner_desc, x)
        rec.observe('nested:outer-again', obj, desc, xs[0])
    # an inner function that raises in the middle of the outer evaluation
    inner_desc = D('Derivative', 'sinexp', method='central', n=1)
    outer_desc = D('Derivative', {'nested': inner_desc}, method='central', n=1)
    for k in (1, 7, 40, 90):
        fun = RaisingFun(f_sinexp, k)
        inner = build(inner_desc, fun=fun)

        def nested(x, _inner=inner):
            return _inner(x)[0]
        outer = build(outer_desc, fun=nested)
        try:
            outer(0.5)
        except RuntimeError:
            pass
        fun.armed = False
        rec.observe('nested:raising-outer', outer, outer_desc, 0.5)
        rec.observe('nested:raising-inner', inner, inner_desc, 0.5)


def history_threads(rec, pool, num_threads=8, repeats=3):
    """Disjoint objects used concurrently by several threads."""
    old_interval = sys.getswitchinterval()
    sys.setswitchinterval(1e-6)
    barrier = threading.Barrier(num_threads)
    errors = []
    extra = nested_descs()[:5]

    def work(tid):
        try:
            rng = random.Random(1000 + tid)
            descs = [pool[i] for i in range(tid % 3, len(pool), 3)] + extra
            objs = [(build(desc, shared_steps={}), desc) for desc in descs]
            # thread private generator shared by the thread's own objects
            spec = STEP_SPECS[2 + tid % 5]
            private = make_step(spec)
            for method, n in [('central', 1), ('forward', 2), ('complex', 3), ('central', 4)]:
                desc = D('Derivative', 'sinexp', step=spec, method=method, n=n)
                objs.append((build(desc, step=private), desc))
            barrier.wait()
            for _ in range(repeats):
                rng.shuffle(objs)
                for obj, desc in objs:
                    x = rng.choice(xs_for(desc))
                    rec.observe('threads:%d' % tid, obj, desc, x)
                    if tid == 0 and rng.random() < 0.1:
                        clear_rule_cache()
                    if tid == 1 and rng.random() < 0.1:
                        flood_rule_cache(rng, 20)
        except Exception as error:  # pylint: disable=broad-except
            errors.append(repr(error))
            raise

    threads = [threading.Thread(target=work, args=(tid,)) for tid in range(num_threads)]
    for thread in threads:
        thread.start()
    for thread in threads:
        thread.join()
    sys.setswitchinterval(old_interval)
    assert not errors, errors


def history_random(rec, pool, rng, num_histories=40, max_len=12):
    """Random operation sequences over a pool of configurations."""
    real_methods = ['central', 'forward', 'backward']
    deriv = [d for d in pool if d['cls'] == 'Derivative' and d['kw'].get('n', 1) > 0]
    for _ in range(num_histories):
        live = []
        generators = {}
        for _step in range(rng.randint(4, max_len)):
            op = rng.choice(['construct', 'construct-shared', 'call', 'call', 'call', 'set-n',
                             'set-order', 'set-method', 'clear', 'flood', 'prepopulate'])
            if op == 'construct' or (not live and op not in ('clear', 'flood', 'prepopulate',
                                                            'construct-shared')):
                desc = rng.choice(pool)
                live.append([build(desc), desc])
            elif op == 'construct-shared':
                spec = dict(rng.choice(STEP_SPECS[2:]))
                share_id = json.dumps(spec, sort_keys=True)
                if share_id not in generators:
                    generators[share_id] = make_step(spec)
                desc = dict(rng.choice(deriv), step=spec)
                live.append([build(desc, step=generators[share_id]), desc])
            elif op == 'call':
                obj, desc = rng.choice(live)
                rec.observe('random', obj, desc, rng.choice(xs_for(desc)))
            elif op in ('set-n', 'set-order', 'set-method'):
                item = rng.choice(live)
                obj, desc = item
                if desc['cls'] != 'Derivative' or desc['kw'].get('method') not in real_methods:
                    continue
                if op == 'set-n':
                    new = with_kw(desc, n=rng.randint(1, 4))
                    obj.n = new['kw']['n']
                elif op == 'set-order':
                    new = with_kw(desc, order=rng.choice([1, 2, 3, 4, 6]))
                    obj.order = new['kw']['order']
                else:
                    new = with_kw(desc, method=rng.choice(real_methods))
                    obj.method = new['kw']['method']
                item[1] = new
                rec.observe('random:after-' + op, obj, new, rng.choice(xs_for(new)))
            elif op == 'clear':
                clear_rule_cache()
            elif op == 'flood':
                flood_rule_cache(rng, 40)
            else:
                prepopulate_rule_cache(rng)
        for obj, desc in live:
            rec.observe('random:final', obj, desc, xs_for(desc)[0])


def history_generator_purity(rec):
    """A generator handed to derivative objects still answers direct calls identically."""
    for spec in STEP_SPECS[2:]:
        gen = make_step(spec)
        query = (np.asarray([0.5, 20.0]), 'central', 3, 4)
        before = [np.asarray(s).tolist() for s in gen(*query)]
        obj = nd.Derivative(f_exp, step=gen, method='forward', n=2, order=3, full_output=True)
        desc = D('Derivative', 'exp', step=spec, method='forward', n=2, order=3)
        rec.observe('purity', obj, desc, 1.0)
        after = [np.asarray(s).tolist() for s in make_step(spec)(*query)]
        again = [np.asarray(s).tolist() for s in gen(*query)]
        assert before == after == again
        steps_for = getattr(gen, 'steps_for', None)
        if steps_for is not None:
            state = gen._state
            steps, _ratio = steps_for(np.asarray(3.0), 'complex', 4, 2)
            assert gen._state is state, 'steps_for must not touch the remembered state'
            fresh = make_step(spec)
            assert ([np.asarray(s).tolist() for s in steps]
                    == [np.asarray(s).tolist() for s in fresh(np.asarray(3.0), 'complex', 4, 2)])


def history_low_level_api():
    """Whole sequence differences equal the step by step ones; the cache is bounded."""
    rules = [(nd_fd.LogRule, 0.5), (nd_fd.LogRule, np.array([0.5, 2.0])),
             (nd_fd.LogJacobianRule, np.array([0.5, 1.0])),
             (nd_fd.LogHessdiagRule, np.array([0.5, 1.0])),
             (nd_fd.LogHessianRule, np.array([0.5, 1.0]))]
    checked = 0
    for rule_class, x in rules:
        scalar = rule_class is nd_fd.LogRule
        fun = f_sinexp if scalar else (f_vec if rule_class is nd_fd.LogJacobianRule else f_rosen)
        for method in ('central', 'forward', 'backward', 'complex', 'multicomplex'):
            for n in ((1, 2, 3, 4) if scalar else (1,)):
                if method == 'multicomplex' and n > 2:
                    continue
                rule = rule_class(n=n, method=method, order=2)
                if not hasattr(rule, 'differences'):
                    return
                steps = [0.5 ** k * np.ones(np.shape(x)) for k in range(1, 6)]
                if scalar:
                    steps = [h if np.ndim(x) else float(h) for h in steps]
                f_x = fun(x)
                expected = [rule.diff(fun, f_x, x, h) for h in steps]
                for first in (lambda: fun(x), None):
                    if first is None and (not scalar or rule.eval_first_condition
                                          or method in ('complex', 'multicomplex')):
                        continue
                    got, got_f_x = rule.differences(fun, x, steps, first)
                    assert len(got) == len(expected)
                    for a, b in zip(got, expected):
                        assert canon(a) == canon(b), (rule_class.__name__, method, n)
                    if first is not None:
                        assert canon(got_f_x) == canon(f_x)
                    checked += 1
    assert checked > 30, checked
    cache = getattr(nd_fd, 'FD_RULES', None)
    maxsize = getattr(cache, 'maxsize', None)
    if maxsize is not None:
        rule = nd_fd.LogRule(n=1, method='central', order=4)
        ratios = [1.05 + 0.01 * k for k in range(3 * maxsize)]
        values = [rule.rule(ratio).copy() for ratio in ratios]
        assert len(cache) <= maxsize
        kept = [key[0] for key in cache]
        assert kept == [(ratio + 1.0) - 1.0 for ratio in ratios][-maxsize:], 'LRU order'
        for ratio, value in zip(ratios, values):  # evicted entries are recomputed identically
            assert rule.rule(ratio).tobytes() == value.tobytes()
        assert not rule.rule(2.0).flags.writeable or cache is None


# --------------------------------------------------------------------------------------
def main():
    args = sys.argv[2:]

    def option(name, default=None):
        if name in args:
            return args[args.index(name) + 1]
        return default

    seed = int(option('--seed', 20261003))
    jobs = int(option('--jobs', 8))
    rng = random.Random(seed)
    pool = config_pool()
    rec = Recorder()

    history_reuse(rec, pool)
    history_shared_generators(rec, rng)
    history_set_restore(rec)
    history_cache(rec, pool, rng)
    history_raising(rec)
    history_nested(rec)
    history_generator_purity(rec)
    history_low_level_api()
    history_threads(rec, pool)
    history_random(rec, pool, rng)
    history_threads(rec, pool, num_threads=8, repeats=1)  # warm, after everything else

    keys = sorted(set(key for _label, key, _got in rec.items))
    print('observations=%d distinct descriptors=%d' % (len(rec.items), len(keys)))
    with ThreadPoolExecutor(jobs) as executor:
        fresh = dict(zip(keys, executor.map(fresh_eval, keys)))

    num_exceptions = sum('exception' in value for value in fresh.values())
    print('fresh evaluations=%d (of which raise: %d)' % (len(fresh), num_exceptions))
    failures = [(label, key) for label, key, got in rec.items if got != fresh[key]]
    for label, key in failures[:25]:
        print('MISMATCH history=%s descriptor=%s' % (label, key))
    status = 0
    if failures:
        print('C09 VIOLATED: %d of %d observations differ from the fresh interpreter'
              % (len(failures), len(rec.items)))
        status = 1

    write_reference = option('--write-reference')
    if write_reference:
        with open(write_reference, 'w') as stream:
            json.dump(fresh, stream, sort_keys=True, indent=0)
    reference_file = option('--reference')
    if reference_file:
        with open(reference_file) as stream:
            reference = json.load(stream)
        common = sorted(set(reference) & set(fresh))
        changed = [key for key in common if reference[key] != fresh[key]]
        print('reference comparison: %d common descriptors, %d changed' % (len(common),
                                                                           len(changed)))
        for key in changed[:25]:
            print('CHANGED versus reference: %s' % key)
        if changed or not common:
            status = 1
    if status == 0:
        print('C09 holds: every observation is bit-identical to its fresh evaluation')
    return status


if __name__ == '__main__':
    if '--fresh-worker' in sys.argv[2:]:
        fresh_worker()
    else:
        sys.exit(main())
