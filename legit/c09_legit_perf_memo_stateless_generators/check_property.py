#!/usr/bin/env python
"""History-independence check (property C09) for numdifftools.

Usage:  python check_property.py SOURCE_ROOT [--quick] [--exotic-prewarm] [--shared-across-threads]
                                            [--dump FILE] [--against FILE]

SOURCE_ROOT is either the repository root (containing src/numdifftools) or the
src directory itself.

The value and full_output record a derivative object returns for a given
(function, point, configuration) must depend on those alone.  The script

1. evaluates every configuration of a pool in its own *fresh interpreter*
   (one subprocess per configuration) and records a bit-exact digest
   (dtype, shape and raw bytes of the value and of every info field);
2. replays many in-process histories (warm caches, permuted construction
   order, object reuse at other points, shared step generator instances,
   set/restore of n / order / method, cache clear / prewarm / overflow,
   8 and 16 concurrent threads over disjoint objects, user functions that
   raise in the middle of a call followed by normal calls, random operation
   sequences of length 12) and compares every result bit-for-bit with the
   fresh-interpreter digest.

Optional, stronger than the property demands (off by default):
  --exotic-prewarm          also feed complex step ratios to LogRule.rule while prewarming and
                            try to write into the arrays returned by the rule functions;
  --shared-across-threads   let 8 threads use the very same step generator instances.

Exit status 0 when all comparisons agree, 1 otherwise.
"""
from __future__ import print_function
import hashlib
import json
import os
import random
import subprocess
import sys
import threading
import warnings
from concurrent.futures import ThreadPoolExecutor


def _src_dir(root):
    root = os.path.abspath(root)
    cand = os.path.join(root, 'src')
    if os.path.isdir(os.path.join(cand, 'numdifftools')):
        return cand
    return root


if len(sys.argv) < 2:
    print(__doc__)
    sys.exit(2)

SRC = _src_dir(sys.argv[1])
sys.path.insert(0, SRC)

import numpy as np  # noqa: E402  pylint: disable=wrong-import-position
import numdifftools as nd  # noqa: E402
from numdifftools import limits as nd_limits  # noqa: E402
from numdifftools import step_generators as nd_steps  # noqa: E402
from numdifftools import finite_difference as nd_fd  # noqa: E402
from numdifftools import extrapolation as nd_ex  # noqa: E402

assert os.path.abspath(nd.__file__).startswith(SRC), (nd.__file__, SRC)
warnings.simplefilter('ignore')
# warnings.catch_warnings (used inside the library) is not thread-safe and may re-enable
# warnings while threads run; they are irrelevant here.
warnings.showwarning = lambda *args, **kwds: None
EXOTIC = '--exotic-prewarm' in sys.argv

# ---------------------------------------------------------------------------
# user functions (pure, deterministic)
# ---------------------------------------------------------------------------


def f_exp(x):
    return np.exp(x)


def f_sin(x):
    return np.sin(x)


def f_poly(x):
    return x ** 3 + x ** 2


def f_exp2(x):
    return np.exp(2.0 * x)


def f_inv(x):
    return 1.0 / (1.0 + x * x)


def g_rosen(x):
    return (1.0 - x[0]) ** 2 + 105.0 * (x[1] - x[0] ** 2) ** 2


def g_mix(x):
    return 1.0 / (np.exp(x[0]) + np.cos(x[1]) + 10.0 + x[2] * x[2])


def g_sum3(x):
    return x[0] + x[1] ** 2 + x[2] ** 3


def g_cosdiff(x):
    return np.cos(x[0] - x[1])


def j_vec(x):
    return np.array([x[0] * x[1] * x[2] ** 2, x[0] * x[1] * x[2], np.exp(x[0]) - x[1]])


def j_obs(c):
    xdata = np.arange(0, 1, 0.25)
    return (c[0] + c[1] * np.exp(c[2] * xdata)) ** 2


def l_sinc(x):
    return np.sin(x) / x


def l_k(x):
    return (x * np.exp(x) - np.expm1(x)) / x ** 2


def r_pole1(z):
    return -1.0 / np.expm1(2 * z)


def r_pole2(z):
    return 1.0 / np.sin(z) ** 2


def s_geom(x):
    """Sequence f(h) = L + a*h + b*h**2 for h = x * 2**-k, as (sequence, steps)."""
    steps = (x * 0.5 ** np.arange(9.0)).reshape(-1, 1)
    return 1.0 + 0.3 * steps + 0.7 * steps ** 2 + 0.1j * steps, steps


class RichardsonAdapter(object):
    """Makes a Richardson extrapolator look like the other objects: obj(x) -> result."""

    def __init__(self, fun, step_ratio, rstep, order, num_terms):
        self.fun = fun
        self.rich = nd_ex.Richardson(step_ratio=step_ratio, step=rstep, order=order,
                                     num_terms=num_terms)

    order = property(lambda self: self.rich.order,
                     lambda self, order: setattr(self.rich, 'order', order))

    def __call__(self, x):
        seq, steps = self.fun(np.asarray(x))
        return tuple(self.rich(seq, steps))


FUNS = dict((f.__name__, f) for f in [s_geom, f_exp, f_sin, f_poly, f_exp2, f_inv, g_rosen, g_mix, g_sum3,
                                      g_cosdiff, j_vec, j_obs, l_sinc, l_k, r_pole1, r_pole2])

# ---------------------------------------------------------------------------
# configuration pool
# ---------------------------------------------------------------------------
# step specification:  None | float | ['min', kwargs] | ['max', kwargs] | ['c', kwargs]
SHARED_STEPS = {
    'minA': ['min', dict(num_extrap=4)],
    'minB': ['min', dict(base_step=0.01, step_ratio=2.0, num_steps=8, step_nom=1.0)],
    'minC': ['min', dict(step_ratio=1.6, num_extrap=6, offset=1, use_exact_steps=False)],
    'maxA': ['max', dict()],
    'maxB': ['max', dict(base_step=1.0, step_ratio=3.0, num_steps=12)],
    'maxC': ['max', dict(step_ratio=1.5, num_steps=20, use_exact_steps=True)],
    'cA': ['c', dict()],
    'cB': ['c', dict(path='spiral', step_ratio=2.0)],
}


def _mk(kind, fun, x, **kw):
    cfg = dict(kind=kind, fun=fun, x=x, method=kw.pop('method', 'central'),
               n=kw.pop('n', None), order=kw.pop('order', None), step=kw.pop('step', None),
               terms=kw.pop('terms', None), extra=kw)
    return cfg


def make_pool():
    pool = []
    add = pool.append
    # --- Derivative ------------------------------------------------------
    for method in ['central', 'forward', 'backward', 'complex', 'multicomplex']:
        n_max = dict(multicomplex=2, central=5).get(method, 4)
        for n in range(1, n_max + 1):
            for order in [1, 2, 4]:
                if (n + order + len(method)) % 2 == 0 and n > 2:
                    continue  # thin the grid a little
                add(_mk('Derivative', 'f_exp', 0.75, method=method, n=n, order=order))
    add(_mk('Derivative', 'f_sin', [0.0, 0.5, 1.0, 2.0], method='central', n=1, order=2))
    add(_mk('Derivative', 'f_sin', [0.0, 0.5, 1.0, 2.0], method='complex', n=2, order=4))
    add(_mk('Derivative', 'f_poly', [[1.0, -2.0], [3.0, 1e3]], method='forward', n=2, order=3))
    add(_mk('Derivative', 'f_poly', 1.0, method='central', n=0, order=2))
    add(_mk('Derivative', 'f_inv', -0.3, method='central', n=1, order=2, terms=1))
    add(_mk('Derivative', 'f_inv', -0.3, method='central', n=1, order=2, terms=3))
    add(_mk('Derivative', 'f_inv', -0.3, method='backward', n=3, order=2, terms=4))
    add(_mk('Derivative', 'f_exp2', 1e-3, method='central', n=1, order=2, step=0.01))
    add(_mk('Derivative', 'f_exp2', 1e-3, method='complex', n=1, order=2, step=1e-20))
    add(_mk('Derivative', 'f_exp2', [1.0, 10.0], method='central', n=2, order=4, step=[0.01, 0.1]))
    add(_mk('Derivative', 'f_exp2', 0.5, method='central', n=1, order=2, step=None,
            step_ratio=3.0, num_steps=9))
    add(_mk('Derivative', 'f_exp2', 0.5, method='complex', n=3, order=2, step=None,
            step_ratio=1.5, num_extrap=5))
    # error path: complex method on complex point
    add(_mk('Derivative', 'f_exp', 1.0 + 1.0j, method='complex', n=1, order=2))
    for key in ['minA', 'minB', 'minC', 'maxA', 'maxB', 'maxC']:
        for method, n, order, x in [('central', 1, 2, 0.75), ('central', 2, 4, [0.5, 1.5]),
                                    ('forward', 1, 2, 0.75), ('forward', 3, 1, 1.25),
                                    ('backward', 2, 3, -0.5), ('complex', 1, 2, 0.75),
                                    ('complex', 4, 4, 0.25), ('multicomplex', 2, 2, 0.75)]:
            add(_mk('Derivative', 'f_sin', x, method=method, n=n, order=order, step=key))
    # --- Gradient / Jacobian / Hessdiag / Hessian -----------------------------
    for method in ['central', 'forward', 'backward', 'complex', 'multicomplex']:
        for order in [2, 4] if method != 'multicomplex' else [2]:
            add(_mk('Gradient', 'g_mix', [0.5, -1.0, 2.0], method=method, order=order))
            add(_mk('Jacobian', 'j_vec', [1.0, 2.0, 3.0], method=method, order=order))
        add(_mk('Jacobian', 'j_obs', [1.0, 2.0, 0.75], method=method, order=2))
        add(_mk('Gradient', 'g_rosen', [1.0, 1.0], method=method, order=2, step='minA'))
        add(_mk('Jacobian', 'j_vec', [0.5, 0.25, -1.0], method=method, order=2, step='maxB'))
        add(_mk('Hessdiag', 'g_sum3', [1.0, 2.0, 3.0], method=method, order=2))
        add(_mk('Hessdiag', 'g_mix', [0.5, -1.0, 2.0], method=method, order=2, step='minA'))
    add(_mk('Gradient', 'g_mix', [0.5, -1.0, 2.0], method='central', order=2, step=-0.01))
    add(_mk('Jacobian', 'j_vec', [[1.0], [2.0], [3.0]], method='central', order=2))
    add(_mk('Hessdiag', 'g_sum3', [1.0, 2.0, 3.0], method='central', order=4))
    add(_mk('Hessdiag', 'g_sum3', [1.0, -0.0, 3.0], method='forward', order=2, step=-0.05))
    for method in ['central', 'central2', 'forward', 'backward', 'complex', 'multicomplex']:
        add(_mk('Hessian', 'g_rosen', [1.0, 1.0], method=method))
        add(_mk('Hessian', 'g_mix', [0.5, -1.0, 2.0], method=method, step='minA'))
        add(_mk('Hessian', 'g_cosdiff', [0.0, 0.0], method=method, step='maxC'))
    # --- Limit / Residue --------------------------------------------------------
    add(_mk('Limit', 'l_sinc', 0.0, method='above', order=4))
    add(_mk('Limit', 'l_sinc', [0.0, 1.0], method='below', order=2))
    add(_mk('Limit', 'l_k', 0.0, method='above', order=4, step='cA'))
    add(_mk('Limit', 'l_k', 0.0, method='above', order=3, step='cB'))
    add(_mk('Limit', 'l_sinc', 0.0, method='above', order=6, step='cB'))
    add(_mk('Limit', 'l_sinc', 0.0, method='above', order=4, step=None, path='spiral'))
    add(_mk('Residue', 'r_pole1', 0.0, method='above'))
    add(_mk('Residue', 'r_pole2', [0.0, np.pi], method='above', pole_order=2))
    add(_mk('Residue', 'r_pole1', 0.0, method='below', step='cA'))
    # --- Richardson used directly: equal valued step ratios of different type ------
    for ratio in [2.0, 2, complex(2.0, 0.0), np.float64(2.0), np.float32(2.0),
                  np.complex128(2.0)]:
        for order, terms in [(1, 2), (2, 3)]:
            add(_mk('Richardson', 's_geom', 0.25, method=None, order=order, terms=terms,
                    step_ratio=ratio, rstep=1))
    for i, cfg in enumerate(pool):
        cfg['id'] = i
    return pool


POOL = make_pool()
_STEP_CLASSES = dict(min=nd_steps.MinStepGenerator, max=nd_steps.MaxStepGenerator,
                     c=nd_limits.CStepGenerator)


def new_generator(key):
    kind, kwds = SHARED_STEPS[key]
    return _STEP_CLASSES[kind](**dict(kwds))


def build(cfg, fun=None, shared=None):
    """Construct a new object for cfg.  `shared` maps step keys to generator instances."""
    fun = FUNS[cfg['fun']] if fun is None else fun
    step = cfg['step']
    if isinstance(step, str):
        if shared is not None:
            if step not in shared:
                shared[step] = new_generator(step)
            step = shared[step]
        else:
            step = new_generator(step)
    kind = cfg['kind']
    kwds = dict(cfg['extra'])
    if kind == 'Richardson':
        return RichardsonAdapter(fun, order=cfg['order'], num_terms=cfg['terms'], **kwds)
    kwds['full_output'] = True
    if kind in ('Limit', 'Residue'):
        cls = getattr(nd_limits, kind)
        if cfg['order'] is not None:
            kwds['order'] = cfg['order']
        return cls(fun, step=step, method=cfg['method'], **kwds)
    cls = getattr(nd, kind)
    if cfg['terms'] is not None:
        kwds['richardson_terms'] = cfg['terms']
    if cfg['order'] is not None:
        kwds['order'] = cfg['order']
    if cfg['n'] is not None:
        kwds['n'] = cfg['n']
    return cls(fun, step=step, method=cfg['method'], **kwds)


def _canon(obj, out):
    if isinstance(obj, tuple):
        out.append(('T', type(obj).__name__, len(obj)))
        for item in obj:
            _canon(item, out)
        return
    arr = np.asarray(obj)
    out.append((type(obj).__name__ if not isinstance(obj, np.generic) else 'npscalar',
                arr.dtype.str, arr.shape, np.ascontiguousarray(arr).tobytes().hex()))


def digest(result):
    out = []
    _canon(result, out)
    return hashlib.sha256(repr(out).encode()).hexdigest()


def call(obj, x):
    """Call obj at x; return digest of the result or of the exception raised."""
    try:
        res = obj(x)
    except Exception as exc:  # pylint: disable=broad-except
        return 'EXC:' + type(exc).__name__ + ':' + str(exc)
    return digest(res)


def evaluate_fresh(cfg):
    return call(build(cfg), cfg['x'])


# ---------------------------------------------------------------------------
# child mode: evaluate exactly one configuration in this fresh interpreter
# ---------------------------------------------------------------------------
if '--child' in sys.argv:
    idx = int(sys.argv[sys.argv.index('--child') + 1])
    print('DIGEST ' + evaluate_fresh(POOL[idx]))
    sys.exit(0)


def fresh_subprocess_digests(indices, workers=8):
    def run(i):
        out = subprocess.run([sys.executable, os.path.abspath(__file__), sys.argv[1], '--child',
                              str(i)], capture_output=True, text=True)
        for line in out.stdout.splitlines():
            if line.startswith('DIGEST '):
                return line[7:]
        raise RuntimeError('child %d failed: %s' % (i, out.stderr[-2000:]))
    with ThreadPoolExecutor(max_workers=workers) as ex:
        return dict(zip(indices, ex.map(run, indices)))


# ---------------------------------------------------------------------------
# cache handling (works whether or not caches exist / whatever they are called)
# ---------------------------------------------------------------------------
try:
    from collections.abc import MutableMapping
except ImportError:  # pragma: no cover
    from collections import MutableMapping


def _modules():
    mods = []
    for name, mod in sorted(sys.modules.items()):
        if name == 'numdifftools' or name.startswith('numdifftools.'):
            if mod is not None and 'tests' not in name:
                mods.append(mod)
    return mods


def find_caches():
    """Return ([mapping caches], [objects with cache_clear])."""
    maps, funcs, seen = [], [], set()
    for mod in _modules():
        for name, obj in sorted(vars(mod).items()):
            if id(obj) in seen:
                continue
            if isinstance(obj, (dict, MutableMapping)) and name.isupper() and not name.startswith('__'):
                seen.add(id(obj))
                maps.append((mod.__name__ + '.' + name, obj))
            elif callable(getattr(obj, 'cache_clear', None)):
                seen.add(id(obj))
                funcs.append((mod.__name__ + '.' + name, obj))
            elif isinstance(obj, type) and obj.__module__ == mod.__name__:
                for aname, aobj in sorted(vars(obj).items()):
                    aobj = getattr(aobj, '__func__', aobj)
                    if callable(getattr(aobj, 'cache_clear', None)) and id(aobj) not in seen:
                        seen.add(id(aobj))
                        funcs.append((mod.__name__ + '.' + name + '.' + aname, aobj))
    return maps, funcs


def clear_caches():
    maps, funcs = find_caches()
    for _name, cache in maps:
        cache.clear()
    for _name, func in funcs:
        func.cache_clear()


def prewarm_caches(rng=None, big=False):
    """Populate every rule cache through the public rule functions."""
    ratios = [2.0, 1.6, 1.5, 3.0, 4.0, np.float64(2.0), 2, (2.0 + 0j),
              np.exp(1j * np.pi / 8) * 2.0, np.exp(1j * np.pi / 8) * 4.0]
    if big:
        ratios = ratios + [1.1 + 0.01 * i for i in range(60)]
    jobs = []
    for ratio in ratios:
        # Complex step ratios are legitimate for Richardson (spiral paths of CStepGenerator).
        # LogRule.rule is only ever given real ratios by the library; complex ones are fed to it
        # only on request (--exotic-prewarm): a cache that does not distinguish 2.0 from (2+0j)
        # would then be poisoned with complex rules.
        for method in ['central', 'forward', 'backward', 'complex', 'multicomplex']:
            if isinstance(ratio, (complex, np.complexfloating)) and not EXOTIC:
                break
            for n in range(0, 6):
                for order in [1, 2, 3, 4, 6]:
                    jobs.append(('fd', ratio, method, n, order))
        for step in [1, 2, 4]:
            for order in [1, 2, 4, 6]:
                for terms in [1, 2, 3, 4, 7]:
                    jobs.append(('rich', ratio, step, order, terms))
    for method in ['central', 'forward', 'backward', 'complex', 'multicomplex', 'central2']:
        for n in range(0, 12):
            for order in range(1, 9):
                jobs.append(('scale', method, n, order))
    if rng is not None:
        rng.shuffle(jobs)
        jobs = jobs[:rng.randint(len(jobs) // 4, len(jobs))]
    for job in jobs:
        try:
            if job[0] == 'fd':
                rule_cls = [nd_fd.LogRule, nd_fd.LogJacobianRule, nd_fd.LogHessdiagRule][job[3] % 3]
                rule_cls(n=job[3], method=job[2], order=job[4]).rule(job[1])
            elif job[0] == 'rich':
                rich = nd_ex.Richardson(step_ratio=job[1], step=job[2], order=job[3],
                                        num_terms=job[4])
                rich.rule()
                rich.rule(3)
            else:
                nd_steps.default_scale(job[1], job[2], job[3])
        except Exception:  # pylint: disable=broad-except
            pass


# ---------------------------------------------------------------------------
# checker
# ---------------------------------------------------------------------------
class Checker(object):
    def __init__(self, ref):
        self.ref = ref
        self.failures = []
        self.count = 0
        self._lock = threading.Lock()

    def check(self, cfg, got, where):
        with self._lock:
            self.count += 1
            if got != self.ref[cfg['id']]:
                self.failures.append((where, cfg['id']))
                if len(self.failures) <= 25:
                    print('MISMATCH [%s] cfg %d %s: fresh=%s got=%s' % (
                        where, cfg['id'], json.dumps(cfg, default=str), self.ref[cfg['id']][:60],
                        got[:60]))

    def check_call(self, cfg, obj, where):
        self.check(cfg, call(obj, cfg['x']), where)


def other_points(cfg, rng):
    """Points of other shapes / magnitudes to call an object at before its own point."""
    x = np.asarray(cfg['x'])
    if cfg['kind'] == 'Richardson':
        return [1.0, 0.5]
    if cfg['kind'] in ('Derivative', 'Limit', 'Residue'):
        if np.iscomplexobj(x):
            return [0.5]
        cands = [0.1, 100.0, [3.0, 4.0, 5.0, 6.0, 7.0], [[1.0, 2.0, 3.0]], -2.5, 0.0, 1e-8]
        if cfg['kind'] == 'Residue':
            cands = [0.0, [0.0, 0.0]]
        return rng.sample(cands, min(len(cands), rng.randint(1, 3)))
    scale = rng.choice([0.5, 2.0, 10.0, -1.0])
    return [(x * scale + rng.choice([0.0, 0.125, 1.0])).tolist()]


REAL_METHODS = ['central', 'forward', 'backward']


def set_and_restore(cfg, obj, rng, call_between=True):
    """Change n / order / real-step method (optionally calling in between), then restore."""
    if cfg['kind'] in ('Limit', 'Residue', 'Richardson'):
        old = obj.order
        obj.order = old + rng.choice([1, 2])
        if call_between:
            call(obj, cfg['x'])
        obj.order = old
        if cfg['method'] in ('above', 'below'):
            oldm = obj.method
            obj.method = 'below' if oldm == 'above' else 'above'
            if call_between:
                call(obj, cfg['x'])
            obj.method = oldm
        return
    choices = ['order']
    if cfg['kind'] == 'Derivative':
        choices.append('n')
    if cfg['method'] in REAL_METHODS:
        choices.append('method')
    for what in rng.sample(choices, rng.randint(1, len(choices))):
        old = getattr(obj, what)
        if what == 'n':
            new = rng.choice([v for v in [1, 2, 3, 4] if v != old])
        elif what == 'order':
            new = rng.choice([v for v in [2, 4, 6] if v != old])
        else:
            new = rng.choice([m for m in REAL_METHODS if m != old])
        setattr(obj, what, new)
        if call_between:
            call(obj, cfg['x'])
            if rng.random() < 0.5:
                call(obj, other_points(cfg, rng)[0])
        setattr(obj, what, old)


class Flaky(object):
    """Wraps a user function; raises at the fail_at'th evaluation while armed."""

    def __init__(self, fun, fail_at):
        self.fun = fun
        self.fail_at = fail_at
        self.calls = 0
        self.armed = True

    def __call__(self, x, *args, **kwds):
        self.calls += 1
        if self.armed and self.calls == self.fail_at:
            raise RuntimeError('user function failed on purpose')
        return self.fun(x, *args, **kwds)


# ------------------------------- scenarios ---------------------------------
def scenario_permuted_fresh(chk, rng, rounds):
    for r in range(rounds):
        order = list(POOL)
        rng.shuffle(order)
        if r % 2 == 0:
            clear_caches()
        for cfg in order:
            chk.check_call(cfg, build(cfg), 'permuted-fresh')


def scenario_reuse(chk, rng, rounds):
    for _ in range(rounds):
        order = list(POOL)
        rng.shuffle(order)
        for cfg in order:
            obj = build(cfg)
            for x in other_points(cfg, rng):
                call(obj, x)
            chk.check_call(cfg, obj, 'reuse-other-points')
            chk.check_call(cfg, obj, 'reuse-second-call')
            set_and_restore(cfg, obj, rng, call_between=rng.random() < 0.7)
            chk.check_call(cfg, obj, 'set-restore')


def scenario_shared_generators(chk, rng, rounds):
    shared_cfgs = [c for c in POOL if isinstance(c['step'], str)]
    for _ in range(rounds):
        shared = {}
        objs = [(cfg, build(cfg, shared=shared)) for cfg in shared_cfgs]
        for _rep in range(2):
            rng.shuffle(objs)
            for cfg, obj in objs:
                if rng.random() < 0.3:
                    call(obj, other_points(cfg, rng)[0])
                chk.check_call(cfg, obj, 'shared-generator')
        # direct use of the shared generators in between
        for key, gen in shared.items():
            if SHARED_STEPS[key][0] != 'c':
                list(gen(np.array([1e3, 2.0]), 'complex', 4, 6))
            else:
                list(gen(np.array([1e3, 2.0])))
        for cfg, obj in objs:
            chk.check_call(cfg, obj, 'shared-generator-after-direct-use')
    # the module level one_step generator is shared by construction
    one = nd_steps.one_step
    probe = [c for c in POOL if c['kind'] == 'Derivative' and c['step'] is None and not c['extra']
             and c['method'] != 'multicomplex'][:12]
    ref_local = {}
    for cfg in probe:  # reference with a private equivalent generator
        private = nd_steps.MinStepGenerator(num_steps=1, scale=None, step_nom=None)
        obj = build(dict(cfg, step=None))
        obj.step = private
        ref_local[cfg['id']] = call(obj, cfg['x'])
    for _ in range(rounds):
        rng.shuffle(probe)
        for cfg in probe:
            obj = build(dict(cfg, step=None))
            obj.step = one
            got = call(obj, cfg['x'])
            chk.count += 1
            if got != ref_local[cfg['id']]:
                chk.failures.append(('one_step-shared', cfg['id']))
                print('MISMATCH [one_step-shared] cfg %d' % cfg['id'])


def scenario_cache(chk, rng, rounds):
    sample = list(POOL)
    for r in range(rounds):
        rng.shuffle(sample)
        third = max(len(sample) // 3, 1)
        clear_caches()
        for cfg in sample[:third]:
            chk.check_call(cfg, build(cfg), 'cache-cleared')
        clear_caches()
        prewarm_caches(rng if r else None, big=(r % 2 == 1))
        for cfg in sample[third:2 * third]:
            chk.check_call(cfg, build(cfg), 'cache-prewarmed')
        for cfg in sample[2 * third:]:
            if rng.random() < 0.5:
                clear_caches()
            else:
                prewarm_caches(rng)
            obj = build(cfg)
            chk.check_call(cfg, obj, 'cache-toggled')
            clear_caches()
            chk.check_call(cfg, obj, 'cache-cleared-between-calls')
    if EXOTIC:
        # Writing into the arrays the rule functions return must not alter later results
        # (either the write is refused or it hits a private copy).
        for ratio in [2.0, 1.6, 1.5, 3.0]:
            for method in ['central', 'forward', 'backward', 'complex']:
                for n in [1, 2, 3, 4]:
                    for order in [1, 2, 4]:
                        for rule_cls in [nd_fd.LogRule, nd_fd.LogJacobianRule]:
                            try:
                                rule_cls(n=n, method=method, order=order).rule(ratio)[...] = 1e6
                            except ValueError:
                                pass
            for step in [1, 2, 4]:
                for order in [1, 2, 4]:
                    for terms in [1, 2, 3]:
                        try:
                            nd_ex.Richardson(ratio, step, order, terms).rule()[...] = 1e6
                        except ValueError:
                            pass
    for cfg in sample[:40]:
        chk.check_call(cfg, build(cfg), 'cache-final')


def scenario_threads(chk, rng, num_threads, per_thread, cold):
    old = sys.getswitchinterval()
    sys.setswitchinterval(1e-6)
    try:
        plans = []
        for _t in range(num_threads):
            plans.append([rng.choice(POOL) for _ in range(per_thread)])
        seeds = [rng.randrange(1 << 30) for _ in range(num_threads)]
        barrier = threading.Barrier(num_threads)
        errors = []

        def worker(plan, seed):
            lrng = random.Random(seed)
            shared = {}  # generators shared only inside this thread (disjoint between threads)
            try:
                barrier.wait()
                for cfg in plan:
                    obj = build(cfg, shared=shared if lrng.random() < 0.5 else None)
                    if lrng.random() < 0.3:
                        call(obj, other_points(cfg, lrng)[0])
                    chk.check_call(cfg, obj, 'threads-%d%s' % (num_threads, '-cold' if cold else ''))
                    if lrng.random() < 0.3:
                        set_and_restore(cfg, obj, lrng)
                        chk.check_call(cfg, obj, 'threads-%d-set-restore' % num_threads)
            except Exception as exc:  # pylint: disable=broad-except
                errors.append(repr(exc))

        if cold:
            clear_caches()
        threads = [threading.Thread(target=worker, args=(p, s)) for p, s in zip(plans, seeds)]
        for t in threads:
            t.start()
        for t in threads:
            t.join()
        for err in errors:
            chk.failures.append(('thread-error', err))
            print('THREAD ERROR', err)
    finally:
        sys.setswitchinterval(old)


def scenario_threads_sharing_generators(chk, rng, num_threads, per_thread):
    """All threads use the same step generator instances (stronger than the property demands)."""
    shared_cfgs = [c for c in POOL if isinstance(c['step'], str)]
    shared = dict((key, new_generator(key)) for key in SHARED_STEPS)
    barrier = threading.Barrier(num_threads)
    old = sys.getswitchinterval()
    sys.setswitchinterval(1e-6)

    def worker(seed):
        lrng = random.Random(seed)
        barrier.wait()
        for _ in range(per_thread):
            cfg = lrng.choice(shared_cfgs)
            chk.check_call(cfg, build(cfg, shared=shared), 'threads-sharing-generators')

    try:
        threads = [threading.Thread(target=worker, args=(rng.randrange(1 << 30),))
                   for _ in range(num_threads)]
        for t in threads:
            t.start()
        for t in threads:
            t.join()
    finally:
        sys.setswitchinterval(old)


def scenario_threads_with_cache_churn(chk, rng, num_threads, per_thread):
    """Worker threads evaluate while another thread clears / prewarms the caches."""
    stop = threading.Event()

    def churn():
        lrng = random.Random(12345)
        while not stop.is_set():
            clear_caches()
            prewarm_caches(lrng)

    churner = threading.Thread(target=churn)
    churner.start()
    try:
        scenario_threads(chk, rng, num_threads, per_thread, cold=False)
    finally:
        stop.set()
        churner.join()


def scenario_raising(chk, rng, rounds):
    for _ in range(rounds):
        order = [c for c in POOL if not chk.ref[c['id']].startswith('EXC:')]
        rng.shuffle(order)
        shared = {}
        for cfg in order:
            flaky = Flaky(FUNS[cfg['fun']], fail_at=1)
            flaky.armed = False
            probe = build(cfg, fun=flaky)
            call(probe, cfg['x'])
            total = flaky.calls
            fail_at = rng.randint(1, max(total, 1))
            flaky = Flaky(FUNS[cfg['fun']], fail_at=fail_at)
            obj = build(cfg, fun=flaky, shared=shared)
            got = call(obj, cfg['x'])
            if not got.startswith('EXC:RuntimeError'):
                chk.failures.append(('raising-did-not-raise', cfg['id']))
                print('user exception was swallowed for cfg', cfg['id'], got[:80])
            flaky.armed = False
            chk.check_call(cfg, obj, 'after-user-exception-same-object')
            chk.check_call(cfg, build(cfg, shared=shared), 'after-user-exception-shared-generator')
            chk.check_call(cfg, build(cfg), 'after-user-exception-new-object')


def scenario_random_histories(chk, rng, num_histories, length=12):
    ops = ['construct', 'call', 'call_other', 'set_restore', 'share', 'clear', 'prewarm', 'raise']
    for _h in range(num_histories):
        shared = {}
        live = []
        for _step in range(length):
            op = rng.choice(ops)
            if op == 'construct' or not live:
                cfg = rng.choice(POOL)
                live.append((cfg, build(cfg, shared=shared if rng.random() < 0.6 else None)))
            elif op == 'call':
                cfg, obj = rng.choice(live)
                chk.check_call(cfg, obj, 'history-call')
            elif op == 'call_other':
                cfg, obj = rng.choice(live)
                call(obj, other_points(cfg, rng)[0])
            elif op == 'set_restore':
                cfg, obj = rng.choice(live)
                set_and_restore(cfg, obj, rng, call_between=rng.random() < 0.7)
            elif op == 'share':
                cands = [c for c in POOL if isinstance(c['step'], str)]
                cfg = rng.choice(cands)
                live.append((cfg, build(cfg, shared=shared)))
            elif op == 'clear':
                clear_caches()
            elif op == 'prewarm':
                prewarm_caches(rng)
            elif op == 'raise':
                cfg = rng.choice(POOL)
                flaky = Flaky(FUNS[cfg['fun']], fail_at=rng.randint(1, 6))
                obj = build(cfg, fun=flaky, shared=shared)
                call(obj, cfg['x'])
                flaky.armed = False
                live.append((cfg, obj))
        for cfg, obj in live:
            chk.check_call(cfg, obj, 'history-final')


def main():
    quick = '--quick' in sys.argv
    indices = [c['id'] for c in POOL]
    print('source: %s  (numdifftools from %s)' % (SRC, os.path.dirname(nd.__file__)))
    print('pool: %d configurations; evaluating each in a fresh interpreter ...' % len(POOL))
    ref = fresh_subprocess_digests(indices)
    # a second fresh evaluation of a sample must agree (sanity: determinism of the reference)
    again = fresh_subprocess_digests(indices[::7])
    unstable = [i for i in again if again[i] != ref[i]]
    if unstable:
        print('REFERENCE NOT REPRODUCIBLE for configs', unstable)
        return 1
    if '--dump' in sys.argv:
        with open(sys.argv[sys.argv.index('--dump') + 1], 'w') as fid:
            json.dump({str(k): v for k, v in ref.items()}, fid, indent=0)
    if '--against' in sys.argv:
        with open(sys.argv[sys.argv.index('--against') + 1]) as fid:
            other = json.load(fid)
        diff = [i for i in indices if other.get(str(i)) != ref[i]]
        print('fresh results differing from %s: %d of %d %s' % (
            sys.argv[sys.argv.index('--against') + 1], len(diff), len(indices), diff[:30]))
    n_exc = sum(1 for v in ref.values() if v.startswith('EXC:'))
    print('reference ready (%d configs raise an exception by design)' % n_exc)
    maps, funcs = find_caches()
    print('caches found: %s' % ', '.join([n for n, _ in maps] + [n for n, _ in funcs]))

    chk = Checker(ref)
    rng = random.Random(20261003)
    k = 1 if quick else 2
    steps = [
        ('permuted fresh objects on warm/cold caches', lambda: scenario_permuted_fresh(chk, rng, 2 * k)),
        ('object reuse + set/restore', lambda: scenario_reuse(chk, rng, k)),
        ('shared step generators', lambda: scenario_shared_generators(chk, rng, 2 * k)),
        ('cache clear / prewarm / overflow', lambda: scenario_cache(chk, rng, 2 * k)),
        ('8 threads, cold caches', lambda: scenario_threads(chk, rng, 8, 30 * k, cold=True)),
        ('8 threads, warm caches', lambda: scenario_threads(chk, rng, 8, 30 * k, cold=False)),
        ('16 threads, cold caches', lambda: scenario_threads(chk, rng, 16, 15 * k, cold=True)),
        ('8 threads + cache churn thread', lambda: scenario_threads_with_cache_churn(chk, rng, 8, 10 * k)),
        ('user function raising mid-call', lambda: scenario_raising(chk, rng, k)),
        ('random histories (length 12)', lambda: scenario_random_histories(chk, rng, 150 * k)),
        ('permuted fresh objects again', lambda: scenario_permuted_fresh(chk, rng, 1)),
    ]
    if '--shared-across-threads' in sys.argv:
        steps.append(('8 threads sharing step generators',
                      lambda: scenario_threads_sharing_generators(chk, rng, 8, 40 * k)))
    for name, func in steps:
        before, nfail = chk.count, len(chk.failures)
        func()
        print('%-45s %6d comparisons, %d mismatches' % (name, chk.count - before,
                                                       len(chk.failures) - nfail))
    print('TOTAL %d comparisons, %d mismatches' % (chk.count, len(chk.failures)))
    if chk.failures:
        print('PROPERTY C09 VIOLATED')
        return 1
    print('PROPERTY C09 HOLDS')
    return 0


if __name__ == '__main__':
    sys.exit(main())
