import sys, os, time
sys.path.insert(0, '/verif')
from sim.common import ensure_pinned_env
ensure_pinned_env()
from sim.common import import_library, derive_seed
import_library()
from sim import driver
from checks import c09
mode = sys.argv[1] if len(sys.argv) > 1 else 'seq'
n = int(sys.argv[2]) if len(sys.argv) > 2 else 20
refs = c09.make_refs()
tot = {}
t0 = time.time()
for i in range(n):
    v, s, e = driver.run_one(c09, mode, 0, i, refs)
    driver.merge_stats(tot, s)
    if e: print('ERR', i, e[0]['msg'][:1500])
    for x in v:
        print('VIOL', i, x['kind'], x['cls'], x['diff'], x['task'], x['idx'])
tot.pop('states', None); tot.pop('shapes', None); tot.pop('sample_plans', None); tot.pop('conflict_sigs', None)
print(tot)
print('refs', refs.evals, refs.hits, 'time', time.time() - t0)
